"""C11 — the pulse storage stays loadable whatever point a store operation fails at.

Fault enumeration: every generated transaction (store / overwrite of real pulse templates with named
sub-templates, deletion, direct backend calls; on top of existing storage content) is executed against the
real `qupulse.serialization` code once without fault (reference run, records the event trace) and then once
per position k of a single injected failure among the backend calls and the patched
`open` / file `write` / `os.remove` / `os.rename` / `os.replace` / `tempfile.mkstemp` /
`zipfile.ZipFile.__init__/writestr/close` calls, in two modes: `raise` (an `OSError` instead of the k-th
call; exception handlers run) and `crash` (a forked child `os._exit`s at the k-th call or right after the
k-th file-level call returned; nothing runs, nothing in user-space file buffers reaches the disk).
A second stream runs HISTORIES: several transactions on one live PulseStorage that share sub-template
objects, one of them failing at every position, observed through a new storage after every transaction.
A third stream CONSTRUCTS templates of every class with the live PulseStorage as (default) registry — valid
ones and ones whose constructor must raise: a constructor that raised must leave no trace.
Afterwards the storage object is abandoned, a new `PulseStorage` over a new backend object on the same
directory / archive lists and loads everything.  The state is compared with the Lean model's
`run (steps.take k)` and judged with the executable spec `loadableB` (proved `↔ Loadable`).
"""
from __future__ import annotations

import builtins
import contextlib
import json
import os
import shutil
import sys
import tempfile
import zipfile
from unittest import mock

import core
from core import sx

BACKENDS = ('dir', 'zip', 'dict', 'caching-dir')
STEP_KINDS = {'open:w': 'open', 'write': 'write', 'remove': 'remove', 'rename': 'rename', 'replace': 'rename',
              'mkstemp': 'mkstemp', 'writestr': 'writestr'}
DICT_STEP_KINDS = {'put': 'dictput', 'delete': 'dictdel'}
ERR_CLASS = {'FileExistsError': 'file_exists', 'KeyError': 'key_error', 'TypeError': 'type_error',
             'RuntimeError': 'clash', 'ValueError': 'value_error'}


def _ser():
    import qupulse.serialization as ser
    return ser


# ---------------------------------------------------------------------------------------------
# templates from specs
# ---------------------------------------------------------------------------------------------
# spec: {'k': 'table'|'seq'|'rep'|'map'|'reuse'|'bad', 'id': str|None, 'v': int, 'c': [spec, ...]}

class Unserializable:
    """an object the JSON encoder cannot serialize"""


def build(spec: dict, storage, memo=None):
    """Real qupulse template for a spec. 'reuse' nodes are the objects held by `storage`; specs with the same
    'oid' are one Python object (a sub-template shared by several parents)."""
    memo = {} if memo is None else memo
    oid = spec.get('oid')
    if oid is not None and oid in memo:
        return memo[oid]
    pt = _build(spec, storage, memo)
    if oid is not None:
        memo[oid] = pt
    return pt


def _build(spec: dict, storage, memo):
    from qupulse.pulses import TablePT, SequencePT, RepetitionPT, MappingPT
    k, ident = spec['k'], spec.get('id')
    if k == 'reuse':
        return storage[ident]
    if k in ('table', 'bad'):
        v = spec.get('v', 0)
        pt = TablePT({'A': [(0, v % 7), (1 + v % 3, (v // 7) % 5, 'linear' if v % 2 else 'hold')]},
                     identifier=ident, registry=dict())
        if k == 'bad':
            data = pt.get_serialization_data()
            data['poison'] = Unserializable()
            pt.get_serialization_data = lambda *a, _d=data, **kw: dict(_d)
        return pt
    children = [build(c, storage, memo) for c in spec['c']]
    if k == 'seq':
        return SequencePT(*children, identifier=ident, registry=dict())
    if k == 'rep':
        return RepetitionPT(children[0], 1 + spec.get('v', 0) % 4, identifier=ident, registry=dict())
    if k == 'map':
        return MappingPT(children[0], identifier=ident, channel_mapping={'A': 'A'},
                         measurement_mapping={}, parameter_mapping={}, registry=dict())
    raise core.MachineryError('bad spec kind %r' % k)


def spec_ids(spec: dict, out=None) -> list:
    out = [] if out is None else out
    if spec.get('id') is not None:
        out.append(spec['id'])
    for c in spec.get('c', ()):
        spec_ids(c, out)
    return out


# ---------------------------------------------------------------------------------------------
# scratch backends
# ---------------------------------------------------------------------------------------------

class Scratch:
    """A scratch directory holding the content of one backend; knows how to fill and how to read it
    without going through the code under test."""

    def __init__(self, backend: str):
        self.backend = backend
        self.root = tempfile.mkdtemp(prefix='c11-')
        self.zip_path = os.path.join(self.root, 'storage.zip')
        self.dict_obj = None

    def cleanup(self):
        shutil.rmtree(self.root, ignore_errors=True)

    @property
    def kind(self) -> str:
        return self.backend.replace('caching-', '')

    def fill(self, content: dict):
        """(re)create the pre-state: identifier -> serialization string"""
        for name in os.listdir(self.root):
            p = os.path.join(self.root, name)
            shutil.rmtree(p) if os.path.isdir(p) else os.unlink(p)
        if self.kind == 'dir':
            for ident, data in content.items():
                with open(os.path.join(self.root, ident + '.json'), 'w') as f:
                    f.write(data)
        elif self.kind == 'zip':
            with zipfile.ZipFile(self.zip_path, 'w', compression=zipfile.ZIP_DEFLATED) as z:
                for ident, data in content.items():
                    z.writestr(ident + '.json', data)
        else:
            self.dict_obj = _ser().DictBackend()
            self.dict_obj._cache.update(content)

    def open_backend(self, plain: bool = False):
        """a new backend object of the code under test over the same directory / archive / dict"""
        ser = _ser()
        if self.kind == 'dir':
            b = ser.FilesystemBackend(self.root)
        elif self.kind == 'zip':
            b = ser.ZipFileBackend(self.zip_path)
        else:
            b = self.dict_obj
        if self.backend.startswith('caching-') and not plain:
            import warnings
            with warnings.catch_warnings():
                warnings.simplefilter('ignore')
                b = ser.CachingBackend(b)
        return b

    def readable(self) -> bool:
        if self.kind == 'zip':
            return os.path.isfile(self.zip_path) and zipfile.is_zipfile(self.zip_path)
        return True

    def leftovers(self) -> list:
        """files in the scratch directory that are neither entries nor the archive"""
        if self.kind == 'dir':
            return sorted(n for n in os.listdir(self.root) if not n.endswith('.json'))
        if self.kind == 'zip':
            return sorted(n for n in os.listdir(self.root) if n != 'storage.zip')
        return []


# ---------------------------------------------------------------------------------------------
# fault injection
# ---------------------------------------------------------------------------------------------

class InjectedFault(OSError):
    pass


# calls after whose return the process may die as well (crash mode, `when='after'`): the file-level calls; the
# zip-level calls write into a temporary archive whose close is a position of its own (`zipclose`)
AFTER_KINDS = ('open:w', 'write', 'close', 'remove', 'rename', 'replace')


class Injector:
    """Counts the events performed by the code under test and makes the k-th fail.
    mode 'raise': raise OSError instead of performing the call (handlers run);
    mode 'crash': the process dies with os._exit — `when='at'`: instead of performing the k-th call,
    `when='after'`: immediately after the k-th call returned (before anything else, e.g. the close of a
    surrounding `with open(...)` block, can run). Nothing is flushed on behalf of the code under test: what is
    in user-space file buffers when the process dies is lost."""

    def __init__(self, scratch: Scratch, fail_at=None, mode='raise', when='at'):
        self.scratch = scratch
        self.fail_at = fail_at
        self.mode = mode
        self.when = when
        self.events = []          # (kind, target, performed) in execution order, until the fault fired
        self.fired = False
        self.active = False

    # -- the core ----------------------------------------------------------------------------
    def event(self, kind: str, target: str = ''):
        """called before the call is performed; returns the event index (None when not recording)"""
        if not self.active or self.fired:
            return None
        idx = len(self.events)
        self.events.append([kind, target, True])
        if self.fail_at is not None and idx == self.fail_at and self.when == 'at':
            self.fired = True
            if self.mode == 'crash':
                os._exit(99)
            raise InjectedFault('injected failure at event %d (%s %s)' % (idx, kind, target))
        return idx

    def done(self, idx):
        """called right after the call of event `idx` returned"""
        if idx is not None and self.mode == 'crash' and self.when == 'after' and idx == self.fail_at:
            os._exit(99)

    def failed_naturally(self):
        """the last recorded event raised by itself (e.g. os.remove of a missing file)"""
        if self.events and not self.fired:
            self.events[-1][2] = False

    def _target(self, path) -> str:
        if isinstance(path, int):
            return 'fd'
        try:
            path = os.fspath(path)
        except TypeError:
            return 'obj'
        ap = os.path.abspath(path)
        if not ap.startswith(self.scratch.root):
            return ''
        name = os.path.basename(ap)
        if name == 'storage.zip' and self.scratch.kind == 'zip':
            return 'archive'
        if name.endswith('.json'):
            return 'entry'
        return 'tmp'

    # -- patches -----------------------------------------------------------------------------
    @contextlib.contextmanager
    def window(self):
        inj = self
        real_open = builtins.open
        real_remove, real_rename, real_replace = os.remove, os.rename, os.replace
        real_mkstemp = tempfile.mkstemp
        Z = zipfile.ZipFile
        real_init, real_writestr, real_close = Z.__init__, Z.writestr, Z.close

        class FileProxy:
            def __init__(self, f):
                self._f = f
                self._closed = False

            def write(self, data):
                idx = inj.event('write', self._t)
                r = self._f.write(data)       # stays in the user-space buffer until flush/close
                inj.done(idx)
                return r

            def _close_event(self):
                # closing (= flushing) is a position of its own in crash mode only: a `close` that raises
                # instead of closing has no sensible meaning in raise mode
                if self._closed or inj.mode != 'crash':
                    return None
                self._closed = True
                return inj.event('close', self._t)

            def close(self):
                idx = self._close_event()
                r = self._f.close()
                inj.done(idx)
                return r

            def __enter__(self):
                self._f.__enter__()
                return self

            def __exit__(self, *a):
                idx = self._close_event()
                r = self._f.__exit__(*a)
                inj.done(idx)
                return r

            def __getattr__(self, name):
                return getattr(self._f, name)

            def __iter__(self):
                return iter(self._f)

        def p_open(file, mode='r', *a, **kw):
            t = inj._target(file)
            if not t or not inj.active:
                return real_open(file, mode, *a, **kw)
            writing = any(c in mode for c in 'wax+')
            idx = inj.event('open:w' if writing else 'open:r', t)
            try:
                f = real_open(file, mode, *a, **kw)
            except OSError:
                inj.failed_naturally()
                raise
            inj.done(idx)
            if writing:
                p = FileProxy(f)
                p._t = t
                return p
            return f

        def wrap(kind, real, narg=1):
            def w(*a, **kw):
                t = inj._target(a[0]) if a else ''
                if not t:
                    return real(*a, **kw)
                idx = inj.event(kind, t)
                try:
                    r = real(*a, **kw)
                except OSError:
                    inj.failed_naturally()
                    raise
                inj.done(idx)
                return r
            return w

        def p_mkstemp(*a, **kw):
            d = kw.get('dir', a[2] if len(a) > 2 else None)
            idx = None
            if d is not None and os.path.abspath(d or '.').startswith(inj.scratch.root):
                idx = inj.event('mkstemp', 'tmp')
            r = real_mkstemp(*a, **kw)
            inj.done(idx)
            return r

        def p_init(zself, file, mode='r', *a, **kw):
            t = inj._target(file)
            idx = None
            if t:
                idx = inj.event('zipopen:' + mode[0], t)
            zself._c11_target = t
            zself._c11_mode = mode[0]
            r = real_init(zself, file, mode, *a, **kw)
            inj.done(idx)
            return r

        def p_writestr(zself, *a, **kw):
            t = getattr(zself, '_c11_target', '')
            idx = None
            if t:
                idx = inj.event('writestr', t)
            r = real_writestr(zself, *a, **kw)
            inj.done(idx)
            return r

        def p_close(zself):
            t = getattr(zself, '_c11_target', '')
            idx = None
            if t and getattr(zself, '_c11_mode', 'r') != 'r' and getattr(zself, 'fp', None) is not None \
                    and inj.mode == 'crash':
                idx = inj.event('zipclose', t)
            r = real_close(zself)
            inj.done(idx)
            return r

        patches = [
            mock.patch.object(builtins, 'open', p_open),
            mock.patch.object(os, 'remove', wrap('remove', real_remove)),
            mock.patch.object(os, 'rename', wrap('rename', real_rename)),
            mock.patch.object(os, 'replace', wrap('replace', real_replace)),
            mock.patch.object(tempfile, 'mkstemp', p_mkstemp),
            mock.patch.object(Z, '__init__', p_init),
            mock.patch.object(Z, 'writestr', p_writestr),
            mock.patch.object(Z, 'close', p_close),
        ]
        with contextlib.ExitStack() as st:
            for p in patches:
                st.enter_context(p)
            self.active = True
            try:
                yield self
            finally:
                self.active = False

    def wrap_backend(self, backend):
        """backend-level events: every call of the StorageBackend interface is a failure position"""
        inj = self
        ser = _ser()

        class CountingBackend(ser.StorageBackend):
            def __init__(self, inner):
                self._inner = inner

            def put(self, identifier, data, overwrite=False):
                inj.event('put', identifier)
                try:
                    return self._inner.put(identifier, data, overwrite)
                except (FileExistsError, KeyError):
                    inj.failed_naturally_backend()
                    raise

            def get(self, identifier):
                inj.event('get', identifier)
                return self._inner.get(identifier)

            def exists(self, identifier):
                inj.event('exists', identifier)
                return self._inner.exists(identifier)

            def delete(self, identifier):
                inj.event('delete', identifier)
                try:
                    return self._inner.delete(identifier)
                except (FileExistsError, KeyError):
                    inj.failed_naturally_backend()
                    raise

            def __iter__(self):
                inj.event('iter', '')
                return iter(self._inner)

        return CountingBackend(backend)

    def failed_naturally_backend(self):
        """a backend call raised by itself: mark the backend-level event (the last put/delete event)"""
        if self.fired:
            return
        for ev in reversed(self.events):
            if ev[0] in ('put', 'delete'):
                ev[2] = False
                break

    def step_kinds(self, upto=None) -> list:
        """model step kinds of the (first `upto`) recorded events"""
        table = dict(STEP_KINDS)
        if self.scratch.kind == 'dict':
            table = dict(DICT_STEP_KINDS)
        evs = self.events if upto is None else self.events[:upto]
        return [table[k] for k, _t, ok in evs if ok and k in table]


# ---------------------------------------------------------------------------------------------
# one execution of a transaction on the real code
# ---------------------------------------------------------------------------------------------

def reference_content(pre_specs: list) -> dict:
    """identifier -> serialization of the pre-state, produced by a fault-free PulseStorage over a dict"""
    ser = _ser()
    backend = ser.DictBackend()
    storage = ser.PulseStorage(backend)
    for spec in pre_specs:
        storage[spec['id']] = build(spec, storage)
    return dict(backend.storage)


def apply_txn(txn: dict, live, backend):
    """perform the transaction through the public interface"""
    op = txn['op']
    if op == 'overwrite':
        live.overwrite(txn['id'], build(txn['tree'], live))
    elif op == 'setitem':
        live[txn['id']] = build(txn['tree'], live)
    elif op == 'del':
        del live[txn['id']]
    elif op == 'raw':
        for o in txn['ops']:
            if o[0] == 'put':
                backend.put(o[1], o[2], overwrite=bool(o[3]))
            else:
                backend.delete(o[1])
    else:
        raise core.MachineryError('bad txn op %r' % op)


def observe(scratch: Scratch) -> dict:
    """What a new backend object and a new PulseStorage see. Never uses objects of the failed run."""
    ser = _ser()
    if not scratch.readable():
        return {'view': None, 'loads': {}, 'leftovers': scratch.leftovers()}
    try:
        backend = scratch.open_backend(plain=True)
        ids = sorted(backend)
        view = {i: backend.get(i) for i in ids}
    except Exception as e:  # noqa
        return {'view': None, 'loads': {}, 'leftovers': scratch.leftovers(), 'error': type(e).__name__}
    storage = ser.PulseStorage(scratch.open_backend(plain=True))
    loads = {}
    for i in ids:
        try:
            obj = storage[i]
            loads[i] = 'ok' if obj is not None and getattr(obj, 'identifier', i) == i else 'wrong-object'
        except RecursionError:
            loads[i] = 'RecursionError'
        except Exception as e:  # noqa
            loads[i] = type(e).__name__
    return {'view': view, 'loads': loads, 'leftovers': scratch.leftovers()}


def execute(case: dict, content: dict, scratch: Scratch, fail_at, mode: str, when: str = 'at') -> dict:
    """Fill the scratch backend with `content`, open a live PulseStorage, run the transaction with a fault
    at event `fail_at` (None: no fault). Returns events, the exception, the live object's state and what
    a new storage observes afterwards."""
    ser = _ser()
    scratch.fill(content)
    inj = Injector(scratch, fail_at, mode, when)
    inner = scratch.open_backend()
    backend = inj.wrap_backend(inner)
    live = ser.PulseStorage(backend)
    for i in case.get('cached', ()):
        live[i]
    txn = case['txn']
    tree = txn.get('tree')
    # 'reuse' objects are fetched (and thereby cached) before the transaction starts
    if tree is not None:
        for c in _reuse_ids(tree):
            live[c]
    cache_before = {i: e.serializable for i, e in live.temporary_storage.items()}
    exc = None
    if mode == 'crash':
        pid = os.fork()
        if pid == 0:
            try:
                with inj.window():
                    apply_txn(txn, live, backend)
            except BaseException:  # noqa
                os._exit(98)
            os._exit(0)
        _, status = os.waitpid(pid, 0)
        code = os.waitstatus_to_exitcode(status)
        return {'events': None, 'exit': code, 'exc': None, 'live': None, 'obs': observe(scratch),
                'cache_before': sorted(cache_before)}
    try:
        with inj.window():
            apply_txn(txn, live, backend)
    except InjectedFault:
        exc = 'injected'
    except Exception as e:  # noqa
        exc = type(e).__name__
    # state of the live (failed) storage object, through its public interface
    ids = sorted(set(case['all_ids']))
    live_state = {
        'cache': sorted(live.temporary_storage.keys()),
        'same_objects': all(live.temporary_storage[i].serializable is o for i, o in cache_before.items()
                            if i in live.temporary_storage),
        'txn_open': getattr(live, '_transaction_storage', None) is not None,
    }
    return {'events': inj.events, 'fired': inj.fired, 'exc': exc, 'live': live_state, 'obs': observe(scratch),
            'cache_before': sorted(cache_before), 'step_kinds': inj.step_kinds(),
            'steps_before': [len(inj.step_kinds(k)) for k in range(len(inj.events) + 1)]}


def _reuse_ids(spec: dict, out=None) -> list:
    out = [] if out is None else out
    if spec['k'] == 'reuse':
        out.append(spec['id'])
    for c in spec.get('c', ()):
        _reuse_ids(c, out)
    return out


# ---------------------------------------------------------------------------------------------
# abstraction: identifiers -> numbers, serializations -> (token, references)
# ---------------------------------------------------------------------------------------------

def json_refs(data: str):
    """None if `data` is not a complete document, else the sorted identifiers it references"""
    try:
        doc = json.loads(data)
    except ValueError:
        return None
    if not isinstance(doc, dict) or '#type' not in doc:
        return None
    refs = set()

    def walk(o):
        if isinstance(o, dict):
            if o.get('#type') == 'reference':
                refs.add(o.get('#identifier'))
            else:
                for v in o.values():
                    walk(v)
        elif isinstance(o, list):
            for v in o:
                walk(v)
    walk(doc)
    return sorted(refs)


class Abstraction:
    def __init__(self, ids):
        self.num = {i: n for n, i in enumerate(sorted(set(ids)), 1)}
        self.tokens = {}

    def ident(self, i: str) -> int:
        if i not in self.num:
            self.num[i] = len(self.num) + 1
        return self.num[i]

    def token(self, data: str) -> int:
        if data not in self.tokens:
            self.tokens[data] = len(self.tokens) + 1
        return self.tokens[data]

    def data(self, s: str):
        refs = json_refs(s)
        if refs is None:
            return 'g'
        return ['d', self.token(s), [self.ident(r) for r in refs]]

    def store(self, content: dict):
        return [[self.ident(i), self.data(s)] for i, s in sorted(content.items())]

    def view(self, view):
        return 'missing' if view is None else self.store(view)


def canon_store(sexp) -> dict:
    """Lean store answer -> {id: 'g' | (tok, (refs...))} with references as a sorted set"""
    out = {}
    for i, d in sexp:
        out[int(i)] = 'g' if d == 'g' else (int(d[1]), tuple(sorted({int(r) for r in d[2]})))
    return out


def canon_view(sexp):
    return None if sexp == 'missing' else canon_store(sexp)


def canon_impl(ab: Abstraction, view):
    if view is None:
        return None
    out = {}
    for i, s in view.items():
        d = ab.data(s)
        out[ab.ident(i)] = 'g' if d == 'g' else (d[1], tuple(sorted(set(d[2]))))
    return out


def node_sexp(ab: Abstraction, spec: dict, ref_content: dict, pre: dict):
    """Lean `Node` of a spec: (n id tok serializable reused (children))"""
    k, ident = spec['k'], spec.get('id')
    oid = spec.get('oid', 0)
    if k == 'reuse':
        return ['n', ab.ident(ident), oid, ab.token(pre[ident]), True, True, []]
    tok = 0
    if ident is not None and ident in ref_content:
        tok = ab.token(ref_content[ident])
    return ['n', '-' if ident is None else ab.ident(ident), oid, tok, k != 'bad', False,
            [node_sexp(ab, c, ref_content, pre) for c in spec.get('c', ())]]


# ---------------------------------------------------------------------------------------------
# generators
# ---------------------------------------------------------------------------------------------

def gen_tree(rng, new_id, reusable: list, depth: int, p_named=0.6, allow_bad=False, shared=None):
    """random spec; `new_id()` makes a fresh identifier; `reusable`: identifiers of stored entries that may
    be referenced; `shared`: list collecting named specs of this tree that may be used a second time"""
    r = rng.random()
    if shared and r < 0.08:
        return rng.choice(shared)
    if reusable and r < 0.22:
        return {'k': 'reuse', 'id': rng.choice(reusable)}
    if allow_bad and r < 0.30:
        return {'k': 'bad', 'id': new_id() if rng.random() < 0.5 else None, 'v': rng.randrange(100)}
    if depth <= 0 or r < 0.45:
        spec = {'k': 'table', 'id': new_id() if rng.random() < p_named else None, 'v': rng.randrange(100)}
    else:
        kind = rng.choice(['seq', 'seq', 'rep', 'map'])
        n = rng.randrange(1, 4) if kind == 'seq' else 1
        spec = {'k': kind, 'id': None, 'v': rng.randrange(100), 'c': []}
        for _ in range(n):
            spec['c'].append(gen_tree(rng, new_id, reusable, depth - 1, p_named, allow_bad, shared))
        if rng.random() < p_named:
            spec['id'] = new_id()
    if shared is not None and spec.get('id') is not None:
        shared.append(spec)
    return spec


def assign_oids(spec: dict, counter=None):
    """give every spec dict an object identity; a dict that occurs twice keeps one identity"""
    counter = [0] if counter is None else counter
    if 'oid' not in spec:
        counter[0] += 1
        spec['oid'] = counter[0]
        for c in spec.get('c', ()):
            assign_oids(c, counter)
    return spec


def dependents(content: dict, ident: str) -> set:
    """identifiers whose loading passes through `ident` (including itself)"""
    refs = {i: set(json_refs(s) or ()) for i, s in content.items()}
    out = {ident}
    changed = True
    while changed:
        changed = False
        for i, rs in refs.items():
            if i not in out and rs & out:
                out.add(i)
                changed = True
    return out


def gen_case(rng, index: int) -> dict:
    counter = [0]

    def new_id():
        counter[0] += 1
        return 'p%d' % counter[0]

    # existing content: a few stored trees, later ones may refer to earlier entries
    pre_specs, stored = [], []
    for _ in range(rng.choice([0, 1, 1, 2, 2, 3])):
        t = gen_tree(rng, new_id, list(stored), rng.randrange(0, 3), shared=[])
        if t['k'] == 'reuse':
            continue
        if t.get('id') is None:
            t['id'] = new_id()
        assign_oids(t)
        pre_specs.append(t)
        stored = sorted(reference_content(pre_specs))
    content = reference_content(pre_specs) if pre_specs else {}
    stored = sorted(content)
    kind = rng.random()
    case = {'pre': pre_specs, 'cached': sorted(rng.sample(stored, rng.randrange(0, len(stored) + 1)))}
    if kind < 0.38 or not stored:
        tree = gen_tree(rng, new_id, stored, rng.randrange(1, 4), shared=[])
        if tree['k'] == 'reuse' or tree.get('id') is None:
            tree = {'k': 'seq', 'id': new_id(), 'v': 0, 'c': [tree]}
        case['txn'] = {'op': rng.choice(['setitem', 'overwrite']), 'id': tree['id'], 'tree': tree}
    elif kind < 0.62:
        target = rng.choice(stored)
        safe = [i for i in stored if i not in dependents(content, target)]
        tree = gen_tree(rng, new_id, safe, rng.randrange(0, 3), shared=[])
        if tree['k'] == 'reuse' or tree.get('id') is not None and tree in pre_specs:
            tree = {'k': 'seq', 'id': None, 'v': 0, 'c': [tree]}
        tree = dict(tree)
        tree['id'] = target
        case['txn'] = {'op': 'overwrite', 'id': target, 'tree': tree}
    elif kind < 0.72:
        unreferenced = [i for i in stored if dependents(content, i) == {i}]
        case['txn'] = {'op': 'del', 'id': rng.choice(unreferenced or stored)}
    elif kind < 0.84:
        # non-IO failures: un-serializable nested object, identifier clash, wrong identifier
        sub = rng.random()
        tree = gen_tree(rng, new_id, stored, rng.randrange(1, 4), allow_bad=True, shared=[])
        if tree['k'] in ('reuse',) or tree.get('id') is None:
            tree = {'k': 'seq', 'id': new_id(), 'v': 0, 'c': [tree]}
        if sub < 0.4 and stored:
            # a fresh object under an identifier that is already taken, somewhere in the tree
            clash = {'k': 'table', 'id': rng.choice(stored), 'v': rng.randrange(100)}
            tree = {'k': 'seq', 'id': new_id(), 'v': 0,
                    'c': rng.sample([tree, clash], 2) + [{'k': 'table', 'id': new_id(), 'v': 1}]}
        elif sub < 0.55:
            tree = {'k': 'seq', 'id': new_id(), 'v': 0,
                    'c': [{'k': 'table', 'id': new_id(), 'v': 2}, tree, {'k': 'bad', 'id': None, 'v': 3}]}
        elif sub < 0.8:
            # two different objects with one identifier inside the tree (the later one with a new named child),
            # a sub-template carrying the identifier of the stored template, a template nested in itself
            dup = new_id()
            first = {'k': 'table', 'id': dup, 'v': rng.randrange(100)}
            second = {'k': 'seq', 'id': dup, 'v': 0, 'c': [{'k': 'table', 'id': new_id(), 'v': rng.randrange(100)}]}
            shape = rng.randrange(4)
            if shape == 0:
                tree = {'k': 'seq', 'id': new_id(), 'v': 0, 'c': [first, second, tree]}
            elif shape == 1:
                tree = {'k': 'seq', 'id': new_id(), 'v': 0, 'c': [tree, second, first]}
            elif shape == 2:
                tree = {'k': 'seq', 'id': dup, 'v': 0, 'c': [{'k': 'table', 'id': new_id(), 'v': 4}, first]}
            else:
                tree = {'k': 'seq', 'id': new_id(), 'v': 0,
                        'c': [{'k': 'rep', 'id': dup, 'v': 1, 'c': [{'k': 'seq', 'id': None, 'v': 0, 'c': [first]}]}]}
        op = rng.choice(['setitem', 'overwrite'])
        ident = tree['id']
        if sub > 0.9:
            op, ident = 'setitem', (rng.choice(stored) if stored and rng.random() < 0.5 else new_id())
        case['txn'] = {'op': op, 'id': ident, 'tree': tree}
    else:
        # direct backend calls with overwrite flags and deletions
        ops, used = [], set()
        leaf_docs = reference_content([{'k': 'table', 'id': 'x', 'v': v} for v in range(1)])
        for _ in range(rng.randrange(1, 5)):
            pool = [i for i in stored if i not in used and dependents(content, i) == {i}]
            r = rng.random()
            if r < 0.3 and pool:
                i = rng.choice(pool)
                ops.append(['delete', i])
            elif r < 0.4:
                i = new_id()
                ops.append(['delete', i])
            else:
                i = rng.choice(pool) if pool and rng.random() < 0.5 else new_id()
                doc = reference_content([{'k': 'table', 'id': i, 'v': rng.randrange(100)}])[i]
                ops.append(['put', i, doc, rng.random() < 0.6])
            used.add(i)
        case['txn'] = {'op': 'raw', 'ops': ops}
        case['cached'] = []          # the cache of a PulseStorage is not maintained by direct backend calls
    ids = set(stored)
    if 'tree' in case['txn']:
        assign_oids(case['txn']['tree'])
        ids |= set(spec_ids(case['txn']['tree']))
    if 'id' in case['txn']:
        ids.add(case['txn']['id'])
    for o in case['txn'].get('ops', ()):
        ids.add(o[1])
    case['all_ids'] = sorted(ids)
    case['index'] = index
    return case


# ---------------------------------------------------------------------------------------------
# running one case on one backend: all fault positions
# ---------------------------------------------------------------------------------------------

def txn_sexp(ab: Abstraction, case: dict, ref_content: dict, pre: dict):
    txn = case['txn']
    if txn['op'] in ('overwrite', 'setitem'):
        return [txn['op'], ab.ident(txn['id']), node_sexp(ab, txn['tree'], ref_content, pre)]
    if txn['op'] == 'del':
        return ['del', ab.ident(txn['id'])]
    ops = []
    for o in txn['ops']:
        if o[0] == 'put':
            ops.append(['put', ab.ident(o[1]), ab.data(o[2]), bool(o[3])])
        else:
            ops.append(['delete', ab.ident(o[1])])
    return ['raw', ops]


def intended_final(case: dict, content: dict, ref: dict) -> dict:
    """content the transaction is meant to produce (judge's `new`): what the fault-free run left, or — when
    the fault-free run itself raises — the calls it stands for applied to the old content"""
    if ref['exc'] is None and ref['obs']['view'] is not None:
        return dict(ref['obs']['view'])
    fin = dict(content)
    if case['txn']['op'] == 'raw':
        for o in case['txn']['ops']:
            if o[0] == 'put':
                fin[o[1]] = o[2]
            else:
                fin.pop(o[1], None)
    return fin


def tree_reference(case: dict, content: dict) -> dict:
    """serializations of the named nodes of the transaction's tree from a fault-free run over a dict backend
    (tokens of the model's documents). Empty when the transaction raises."""
    if case['txn'].get('tree') is None:
        return {}
    ser = _ser()
    backend = ser.DictBackend()
    backend._cache.update(content)
    live = ser.PulseStorage(backend)
    try:
        apply_txn(case['txn'], live, backend)
    except Exception:  # noqa
        return {}
    return dict(backend.storage)


def impl_case(case: dict, backend: str, modes=('raise', 'crash'), only=None) -> dict:
    """Implementation side of one (case, backend): reference run + one run per fault position and mode,
    abstracted to identifiers/tokens. Runs in a worker process."""
    scratch = Scratch(backend)
    try:
        content = reference_content(case['pre']) if case['pre'] else {}
        ab = Abstraction(case['all_ids'])
        for i in sorted(content):
            ab.token(content[i])
        ref = execute(case, content, scratch, None, 'raise')
        fin = intended_final(case, content, ref)
        for i in sorted(fin):
            ab.token(fin[i])
        tref = tree_reference(case, content)
        pre_sx = ab.store(content)
        cache_sx = ab.store({i: content[i] for i in ref['cache_before'] if i in content})
        txn_sx = txn_sexp(ab, case, tref, content)
        variants = {'dir': ['dir', 'dir-pinned'], 'zip': ['zip', 'zip-pinned'], 'dict': ['dict']}[scratch.kind]
        lines = [sx(['c11', 'crash', v, pre_sx, cache_sx, txn_sx]) for v in variants]
        out = {'backend': backend, 'lines': lines, 'variants': variants, 'pre': pre_sx, 'fin': ab.store(fin),
               'pre_view': canon_impl(ab, content),
               'ref': {'exc': ref['exc'], 'view': canon_impl(ab, ref['obs']['view']),
                       'kinds': ref['step_kinds'], 'n_events': len(ref['events']),
                       'loads': {ab.ident(i): v for i, v in ref['obs']['loads'].items() if v != 'ok'},
                       'cache': [ab.ident(i) for i in ref['live']['cache']],
                       'events': [e[0] for e in ref['events']]},
               'runs': [], 'names': {v: k for k, v in ab.num.items()}}
        traces = {'raise': {'n': len(ref['events']), 'steps_before': ref['steps_before']}}
        if 'crash' in modes and scratch.kind != 'dict':
            ct = _crash_trace(case, content, scratch)
            traces['crash'] = {'n': len(ct['events']), 'steps_before': ct['steps_before'],
                               'events': [e[0] for e in ct['events']]}
        for mode in modes:
            if mode not in traces:
                continue
            positions = [(k, 'at') for k in range(traces[mode]['n'])]
            if mode == 'crash':
                # the process may also die right after a call returned, before e.g. the surrounding
                # `with open(...)` block closes (and thereby flushes) the file
                positions += [(k, 'after') for k, kind in enumerate(traces[mode]['events']) if kind in AFTER_KINDS]
            for k, when in positions:
                tag = mode if when == 'at' else mode + '-after'
                if only is not None and (tag, k) != tuple(only):
                    continue
                r = execute(case, content, scratch, k, mode, when)
                obs = r['obs']
                rec = {'k': k, 'mode': tag, 'm': traces[mode]['steps_before'][k + (when == 'after')],
                       'view': canon_impl(ab, obs['view']), 'view_sx': ab.view(obs['view']),
                       'loads': {ab.ident(i): v for i, v in obs['loads'].items() if v != 'ok'},
                       'leftovers': len(obs['leftovers']), 'exc': r.get('exc'), 'exit': r.get('exit')}
                if r.get('live') is not None:
                    rec['cache'] = [ab.ident(i) for i in r['live']['cache']]
                    rec['same_objects'] = r['live']['same_objects']
                    rec['txn_open'] = r['live']['txn_open']
                    rec['fired'] = r['fired']
                out['runs'].append(rec)
        out['cache_before'] = [ab.ident(i) for i in ref['cache_before']]
        out['crash_events'] = traces.get('crash', {}).get('events')
        return out
    finally:
        scratch.cleanup()


def _crash_trace(case, content, scratch):
    """events of a fault-free run with crash-mode instrumentation (includes `zipclose`), in a forked child
    so that the instrumentation is exactly the one of the faulted runs"""
    ser = _ser()
    scratch.fill(content)
    inj = Injector(scratch, None, 'crash')
    backend = inj.wrap_backend(scratch.open_backend())
    live = ser.PulseStorage(backend)
    for i in case.get('cached', ()):
        live[i]
    if case['txn'].get('tree') is not None:
        for c in _reuse_ids(case['txn']['tree']):
            live[c]
    try:
        with inj.window():
            apply_txn(case['txn'], live, backend)
    except Exception:  # noqa
        pass
    return {'events': inj.events,
            'steps_before': [len(inj.step_kinds(k)) for k in range(len(inj.events) + 1)]}


# ---------------------------------------------------------------------------------------------
# histories: several transactions on ONE live PulseStorage, a failure in one of them
# ---------------------------------------------------------------------------------------------
# case = {'pre': [...], 'txns': [txn, ...], 'fault_step': f, 'all_ids': [...]}; specs carry 'oid's that are
# shared across the transactions of the history: the same Python object occurs in several stores.

NO_FAULT = 1000000


def ref_docs(ident: str, obj) -> dict:
    """serializations of the named nodes of one tree (independent of any storage content)"""
    ser = _ser()
    backend = ser.DictBackend()
    try:
        ser.PulseStorage(backend).overwrite(ident, obj)
    except Exception:  # noqa
        return {}
    return dict(backend.storage)


def live_node_sexp(ab: Abstraction, spec: dict, memo: dict, live, docs: dict):
    """Lean `Node` of a built spec as the live storage meets it now: `reused` = the storage caches this very
    object under its identifier"""
    ident, oid = spec.get('id'), spec.get('oid', 0)
    obj = memo.get(oid)
    cached = live.temporary_storage.get(ident) if ident is not None else None
    reused = cached is not None and cached.serializable is obj
    tok = ab.token(docs[ident]) if ident is not None and ident in docs else 0
    return ['n', '-' if ident is None else ab.ident(ident), oid, tok, spec['k'] != 'bad', bool(reused),
            [live_node_sexp(ab, c, memo, live, docs) for c in spec.get('c', ())]]


def exec_history(case: dict, content: dict, scratch: Scratch, fault_k) -> dict:
    """Run the whole history on one live PulseStorage; the transaction `fault_step` gets an OSError at its
    event `fault_k` (None: no fault). After every transaction a NEW backend object / PulseStorage observes."""
    ser = _ser()
    scratch.fill(content)
    inj = Injector(scratch, None, 'raise')
    backend = inj.wrap_backend(scratch.open_backend())
    live = ser.PulseStorage(backend)
    ab = Abstraction(case['all_ids'])
    for i in sorted(content):
        ab.token(content[i])
    memo = {}
    f = case['fault_step']
    steps, model_steps = [], []
    for j, txn in enumerate(case['txns']):
        inj.events, inj.fired = [], False
        inj.fail_at = fault_k if j == f else None
        exc, obj = None, None
        if txn.get('tree') is not None:
            obj = build(txn['tree'], live, memo)
            docs = ref_docs(txn['id'], obj)
            tsx = [txn['op'], ab.ident(txn['id']), live_node_sexp(ab, txn['tree'], memo, live, docs)]
        else:
            tsx = ['del', ab.ident(txn['id'])]
        cache_before = {i: e.serializable for i, e in live.temporary_storage.items()}
        try:
            with inj.window():
                if txn['op'] == 'overwrite':
                    live.overwrite(txn['id'], obj)
                elif txn['op'] == 'setitem':
                    live[txn['id']] = obj
                else:
                    del live[txn['id']]
        except InjectedFault:
            exc = 'injected'
        except Exception as e:  # noqa
            exc = type(e).__name__
        obs = observe(scratch)
        model_steps.append([tsx, NO_FAULT])
        steps.append({'exc': exc, 'fired': inj.fired, 'view': canon_impl(ab, obs['view']),
                      'view_sx': ab.view(obs['view']),
                      'loads': {ab.ident(i): v for i, v in obs['loads'].items() if v != 'ok'},
                      'cache': [ab.ident(i) for i in live.temporary_storage.keys()],
                      'same_objects': all(live.temporary_storage[i].serializable is o
                                          for i, o in cache_before.items() if i in live.temporary_storage),
                      'txn_open': getattr(live, '_transaction_storage', None) is not None,
                      'events': [e[0] for e in inj.events] if j == f else None,
                      'steps_before': [len(inj.step_kinds(k)) for k in range(len(inj.events) + 1)] if j == f else None})
    pre_sx = ab.store(content)
    return {'model_steps': model_steps, 'kind': scratch.kind, 'steps': steps, 'pre_sx': pre_sx,
            'pre_view': canon_impl(ab, content), 'names': {v: k for k, v in ab.num.items()}}


def history_line(run: dict, f: int, changes) -> str:
    """the model request of one run; the failed transaction is cut after `changes` changes of the view"""
    ms = [list(m) for m in run['model_steps']]
    if changes is not None:
        ms[f][1] = ['changes', changes]
    return sx(['c11', 'history', run['kind'], run['pre_sx'], [], ms])


def impl_history(case: dict, backend: str, only=None) -> dict:
    """Implementation side of one (history, backend): the fault-free run and one run per failure position of
    the transaction `fault_step` (raise mode)."""
    scratch = Scratch(backend)
    try:
        content = reference_content(case['pre']) if case['pre'] else {}
        ref = exec_history(case, content, scratch, None)
        f = case['fault_step']
        entry = ref['steps'][f - 1]['view'] if f > 0 else ref['pre_view']
        runs = []
        ref['k'] = None
        ref['line'] = history_line(ref, f, None)
        if only is None or only == 'none':
            runs.append(ref)
        # position of a failure in model terms: how often the observable content changed before it. The
        # failure positions are enumerated in order, so this is the number of distinct consecutive views so far
        changes, last = 0, entry
        for k in range(len(ref['steps'][f]['events'])):
            r = exec_history(case, content, scratch, k)
            r['k'] = k
            if r['steps'][f]['view'] != last:
                changes, last = changes + 1, r['steps'][f]['view']
            r['line'] = history_line(r, f, changes)
            if only is None or only == k:
                runs.append(r)
        return {'backend': backend, 'history': True, 'runs': runs}
    finally:
        scratch.cleanup()


def gen_history(rng, index: int) -> dict:
    counter = [0]
    oids = [1000]

    def new_id():
        counter[0] += 1
        return 'h%d' % counter[0]

    def mk(kind, ident, children=(), v=None):
        oids[0] += 1
        spec = {'k': kind, 'id': ident, 'v': rng.randrange(100) if v is None else v, 'oid': oids[0]}
        if kind not in ('table', 'bad'):
            spec['c'] = list(children)
        return spec

    # named objects shared by the transactions of the history
    pool = []
    for _ in range(rng.randrange(1, 4)):
        if pool and rng.random() < 0.3:
            pool.append(mk('seq', new_id(), [rng.choice(pool), mk('table', None)]))
        else:
            pool.append(mk('table', new_id()))

    def parent(extra=()):
        kids = rng.sample(pool, rng.randrange(1, len(pool) + 1)) + list(extra)
        rng.shuffle(kids)
        if rng.random() < 0.3:
            kids = [mk('rep', None, [kids[0]])] + kids[1:]
        return mk('seq', new_id(), kids)

    pre_specs = []
    if rng.random() < 0.4:
        t = {'k': 'table', 'id': new_id(), 'v': rng.randrange(100)}
        pre_specs.append(assign_oids(t))
    kind = rng.random()
    txns = []
    if kind < 0.6:
        # a store that may fail (front end or write error), then further stores sharing its sub-template objects
        sub = rng.random()
        if sub < 0.3:
            p1 = parent()
            p1['c'].append(mk('bad', None))                       # un-serializable sibling met after the others
        elif sub < 0.45 and pre_specs:
            p1 = parent()
            p1['c'].append(mk('table', pre_specs[0]['id']))      # identifier clash met after the others
        else:
            p1 = parent()
        txns.append({'op': rng.choice(['setitem', 'overwrite']), 'id': p1['id'], 'tree': p1})
        for _ in range(rng.randrange(1, 3)):
            r = rng.random()
            if r < 0.7:
                p = parent([mk('table', new_id())] if rng.random() < 0.4 else [])
                txns.append({'op': rng.choice(['setitem', 'overwrite']), 'id': p['id'], 'tree': p})
            elif r < 0.85:
                # overwrite the first parent by a new object built from the shared sub-templates
                p = parent()
                p['id'] = p1['id']
                txns.append({'op': 'overwrite', 'id': p['id'], 'tree': p})
            else:
                txns.append({'op': 'del', 'id': txns[-1]['id']})
        fault_step = 0 if rng.random() < 0.7 else rng.randrange(len(txns))
    else:
        # store a parent, delete it, delete a (now unreferenced) sub-template, store a parent of it again
        s_node = pool[-1]
        p1 = mk('seq', new_id(), [s_node] + ([mk('table', None)] if rng.random() < 0.5 else []))
        txns.append({'op': 'setitem', 'id': p1['id'], 'tree': p1})
        txns.append({'op': 'del', 'id': p1['id']})
        txns.append({'op': 'del', 'id': s_node['id']})
        p2 = mk('seq', new_id(), [mk('table', new_id()), s_node] if rng.random() < 0.5 else [s_node])
        txns.append({'op': 'setitem', 'id': p2['id'], 'tree': p2})
        fault_step = rng.randrange(len(txns))
    ids = set()
    for t in pre_specs:
        ids |= set(spec_ids(t))
    for t in txns:
        ids.add(t['id'])
        if t.get('tree') is not None:
            ids |= set(spec_ids(t['tree']))
    return {'pre': pre_specs, 'txns': txns, 'fault_step': fault_step, 'all_ids': sorted(ids), 'index': index}


def check_history(ctx, case: dict, res: dict, answers: list, judged: dict):
    backend = res['backend']
    for run, ans in zip(res['runs'], answers):
        if ans[0] != 'ok':
            raise core.MachineryError('model rejected history request: %r' % (ans,))
        names = run['names']

        def nm(i):
            try:
                return names.get(int(i), '#%s' % i)
            except ValueError:
                return str(i)
        k = run['k']
        f = case['fault_step']
        ctx.case('(fault %s %s %s)' % (backend, k, run['line']), nontrivial=True)
        ctx.count('history-runs')
        ctx.count('history-backend:' + backend)
        before_impl, before_model = run['pre_view'], run['pre_view']
        ok_so_far = True
        for j, (st, m) in enumerate(zip(run['steps'], ans[1:])):
            m_err, m_wf, _n, m_view, _verdict, _cache, _fin = m
            m_view = canon_view(m_view)
            if m_wf != 'true' or before_impl != before_model:
                ok_so_far = False        # outside the theorems' hypotheses / states already apart
            replay = {'kind': 'history', 'case': case, 'backend': backend,
                      'fault': None if k is None else {'k': k}}
            what = None
            op = case['txns'][j]['op']
            where = ('transaction %d (%s %s) of a history on one PulseStorage, %s backend, %s'
                     % (j, op, case['txns'][j]['id'], backend,
                        'no failure injected' if k is None else 'failure injected at event %d of transaction %d' % (k, f)))
            if ok_so_far:
                verdict = judged[(sx(st['view_sx']), j, id(run))]
                if verdict != 'ok':
                    what = 'after %s the storage is not loadable: %s' % (
                        where, ' '.join(nm(x) for x in (verdict[1:] if isinstance(verdict, list) else [verdict])))
                elif st['loads']:
                    what = 'after %s a new PulseStorage cannot load %s' % (
                        where, ', '.join('%s (%s)' % (nm(i), e) for i, e in sorted(st['loads'].items())))
                elif st['exc'] is not None and st['view'] == before_impl and st['view'] is not None and (
                        not set(st['cache']) <= set(st['view']) or st['txn_open']):
                    what = ('%s failed before its first write but the storage object keeps a trace (cached %s, '
                            'backend lists %s, transaction open: %s)'
                            % (where, [nm(i) for i in st['cache']], [nm(i) for i in sorted(st['view'])], st['txn_open']))
            if what:
                ctx.violation(what, replay)
                break
            want_err = ERR_CLASS.get(st['exc'], st['exc'] or 'none')
            line = '(history %s %s step %d %s)' % (backend, k, j, run['line'])
            if st['view'] != m_view:
                ctx.drift('history: state after a transaction', line, repr(st['view']), repr(m_view))
                break
            if st['exc'] != 'injected' and want_err != m_err:
                ctx.drift('history: outcome of a transaction (exception class)', line, want_err, m_err)
                break
            ctx.count('history-outcome:' + ('injected' if st['exc'] == 'injected' else want_err))
            before_impl, before_model = st['view'], m_view


def _history_judge_lines(res: dict, answers: list):
    """judge requests for every state of every run: (view, content before the transaction, intended content)"""
    out = []
    for run, ans in zip(res['runs'], answers):
        before = run['pre_sx']
        for j, (st, m) in enumerate(zip(run['steps'], ans[1:] if ans[0] == 'ok' else [])):
            fin = m[6]
            out.append(((sx(st['view_sx']), j, id(run)),
                        '(c11 judge %s %s %s)' % (sx(st['view_sx']), sx(before), core.sx(_resx(fin)))))
            before = st['view_sx']
    return out


def _resx(parsed):
    """a store answered by the model, with the references of every document as a sorted set (the form the
    harness extracts from the JSON text)"""
    out = []
    for i, d in parsed:
        out.append([i, d if d == 'g' else ['d', d[1], [str(r) for r in sorted({int(r) for r in d[2]})]]])
    return out


def _history_job(args):
    case, backend, only = args
    import warnings
    warnings.filterwarnings('ignore')
    try:
        return impl_history(case, backend, only)
    except core.MachineryError:
        raise
    except Exception:  # noqa
        import traceback
        return {'backend': backend, 'harness_error': traceback.format_exc()[-1500:]}


def run_histories(ctx, jobs: list):
    if not jobs:
        return
    with _pool(ctx) as pool:
        results = pool.map(_history_job, jobs, chunksize=max(1, len(jobs) // 64))
    lines = []
    for res in results:
        if 'harness_error' in res:
            raise core.MachineryError('harness failed on a history: ' + res['harness_error'])
        lines.extend(r['line'] for r in res['runs'])
    answers = core.Lean.run(lines)
    pos, per_res = 0, []
    for res in results:
        n = len(res['runs'])
        per_res.append(answers[pos:pos + n])
        pos += n
    keys, jl = [], []
    for res, ans in zip(results, per_res):
        for key, line in _history_judge_lines(res, ans):
            keys.append(key)
            jl.append(line)
    judged = dict(zip(keys, core.Lean.run(jl)))
    for (case, _b, _o), res, ans in zip(jobs, results, per_res):
        check_history(ctx, case, res, ans, judged)
        ctx.count('history:len%d' % len(case['txns']))


# ---------------------------------------------------------------------------------------------
# registry stream: templates of every class CONSTRUCTED with `registry=<live PulseStorage>`
# ---------------------------------------------------------------------------------------------
# With a PulseStorage as registry, registering is storing. A constructor that raises (channel mismatch, bad
# mapping, negative count, taken identifier, ...) is a store that failed before its first write: it must leave
# no trace. case = {'steps': [{'recipe': name, 'id': ident, 'kids': [kid...], 'v': int}], ...};
# kid = {'prev': step index} (the object an earlier step built) | {'id': name|None, 'ch': channel, 'v': int, 'p': bool}

def _kid(desc: dict, objs: list):
    from qupulse.pulses import TablePT
    if 'prev' in desc and desc['prev'] < len(objs) and objs[desc['prev']] is not None:
        return objs[desc['prev']]
    v = desc.get('v', 1)
    top = 'k' if desc.get('p') else 1 + v % 5
    return TablePT({desc.get('ch', 'A'): [(0, 0), (1 + v % 3, top, 'linear')]}, identifier=desc.get('id'),
                   registry=dict())


def _recipes():
    from qupulse.pulses import (TablePT, SequencePT, RepetitionPT, MappingPT, ForLoopPT, AtomicMultiChannelPT,
                                PointPT, FunctionPT, ArithmeticPT)
    from qupulse.pulses.multi_channel_pulse_template import ParallelChannelPulseTemplate
    from qupulse.pulses.arithmetic_pulse_template import ArithmeticAtomicPulseTemplate
    from qupulse.pulses.time_reversal_pulse_template import TimeReversalPulseTemplate
    from qupulse.pulses.constant_pulse_template import ConstantPulseTemplate
    return {
        'seq': lambda st, i, k, v: SequencePT(*k, identifier=i, registry=st),
        'seq-constraint': lambda st, i, k, v: SequencePT(*k, identifier=i, registry=st,
                                                        parameter_constraints=['a <' if v % 2 else 'a < 7']),
        'amc': lambda st, i, k, v: AtomicMultiChannelPT(*k, identifier=i, registry=st),
        'map-channel': lambda st, i, k, v: MappingPT(k[0], channel_mapping={'A': 'C'}, identifier=i, registry=st),
        'map-param': lambda st, i, k, v: MappingPT(k[0], parameter_mapping={'k': '2*q'} if v % 2 else {'nope': '1'},
                                                   identifier=i, registry=st),
        'rep': lambda st, i, k, v: RepetitionPT(k[0], v % 5 - 1, identifier=i, registry=st),
        'loop': lambda st, i, k, v: ForLoopPT(k[0], 'k', 1 + v % 3, identifier=i, registry=st),
        'table': lambda st, i, k, v: TablePT({'A': [(0, 0), (2, 1), (1 + v % 3, 0)]}, identifier=i, registry=st),
        'table-constraint': lambda st, i, k, v: TablePT({'A': [(0, 0), ('t', 1)]}, identifier=i, registry=st,
                                                        parameter_constraints=['t <' if v % 2 else 't < 9']),
        'point': lambda st, i, k, v: PointPT([(0, 0), (1 + v % 3, 1)], ('A',), identifier=i, registry=st),
        'function': lambda st, i, k, v: FunctionPT('sin(t' if v % 3 == 0 else 'sin(t)', 2, 'A', identifier=i,
                                                   registry=st),
        'constant': lambda st, i, k, v: ConstantPulseTemplate(1 + v % 3, {'A': 1.}, identifier=i, registry=st),
        'arith-scalar': lambda st, i, k, v: ArithmeticPT(k[0], '+-%'[v % 3], 3, identifier=i, registry=st),
        'arith-atomic': lambda st, i, k, v: ArithmeticAtomicPulseTemplate(k[0], '+-*'[v % 3], k[-1], identifier=i,
                                                                          registry=st),
        'reversal': lambda st, i, k, v: TimeReversalPulseTemplate(k[0], identifier=i, registry=st),
        'parallel': lambda st, i, k, v: ParallelChannelPulseTemplate(k[0], {'D': 1.}, identifier=i, registry=st),
    }


RECIPE_KIDS = {'seq': (1, 3), 'seq-constraint': (1, 2), 'amc': (2, 3), 'map-channel': (1, 1), 'map-param': (1, 1),
               'rep': (1, 1), 'loop': (1, 1), 'table': (0, 0), 'table-constraint': (0, 0), 'point': (0, 0),
               'function': (0, 0), 'constant': (0, 0), 'arith-scalar': (1, 1), 'arith-atomic': (2, 2),
               'reversal': (1, 1), 'parallel': (1, 1)}


def gen_registry_case(rng, index: int) -> dict:
    counter = [0]

    def new_id():
        counter[0] += 1
        return 'r%d' % counter[0]

    steps, used = [], []
    for j in range(rng.randrange(2, 5)):
        name = rng.choice(sorted(RECIPE_KIDS))
        lo, hi = RECIPE_KIDS[name]
        kids = []
        for _ in range(rng.randrange(lo, hi + 1)):
            if steps and rng.random() < 0.3:
                kids.append({'prev': rng.randrange(len(steps))})
            else:
                # mostly channel A; a different channel makes a sequence invalid and a multi-channel pulse valid
                ch = rng.choice('AAAB') if name != 'amc' else rng.choice('AABC')
                kids.append({'id': new_id() if rng.random() < 0.6 else None, 'ch': ch, 'v': rng.randrange(100),
                             'p': name in ('loop', 'map-param') and rng.random() < 0.7})
        ident = rng.choice(used) if used and rng.random() < 0.15 else new_id()
        used.append(ident)
        steps.append({'recipe': name, 'id': ident, 'kids': kids, 'v': rng.randrange(100)})
    return {'steps': steps, 'index': index, 'default': rng.random() < 0.3}


def obj_node_sexp(ab: Abstraction, obj, cache_before: dict, docs: dict, oids: dict):
    """Lean `Node` of a constructed object: its sub-serializables in the order the encoder meets them"""
    ser = _ser()
    ident = obj.identifier
    kids = []

    def walk(o):
        if isinstance(o, ser.Serializable):
            kids.append(o)
        elif isinstance(o, dict):
            for key in sorted(o, key=str):
                walk(o[key])
        elif isinstance(o, (list, tuple, set, frozenset)):
            for x in o:
                walk(x)
    try:
        walk(obj.get_serialization_data())
    except Exception:  # noqa
        pass
    reused = ident is not None and cache_before.get(ident) is obj
    tok = ab.token(docs[ident]) if ident is not None and ident in docs else 0
    return ['n', '-' if ident is None else ab.ident(ident), oids.setdefault(id(obj), len(oids) + 1), tok, True,
            bool(reused), [] if reused else [obj_node_sexp(ab, k, cache_before, docs, oids) for k in kids]]


def impl_registry(case: dict, backend: str) -> dict:
    scratch = Scratch(backend)
    try:
        ser = _ser()
        scratch.fill({})
        live = ser.PulseStorage(scratch.open_backend())
        recipes = _recipes()
        ab = Abstraction([])
        objs, steps, model_steps, oids = [], [], [], {}
        for st in case['steps']:
            cache_before = {i: e.serializable for i, e in live.temporary_storage.items()}
            known_before = st['id'] in live
            exc, obj = None, None
            try:
                kids = [_kid(d, objs) for d in st['kids']]
                if case.get('default'):
                    # the storage is the default registry: `registry=None` registers with it
                    with live.as_default_registry():
                        obj = recipes[st['recipe']](None, st['id'], kids, st['v'])
                else:
                    obj = recipes[st['recipe']](live, st['id'], kids, st['v'])
            except RecursionError:
                exc = 'RecursionError'
            except Exception as e:  # noqa
                exc = type(e).__name__
            objs.append(obj)
            obs = observe(scratch)
            if obj is not None:
                docs = ref_docs(st['id'], obj)
                model_steps.append([['setitem', ab.ident(st['id']), obj_node_sexp(ab, obj, cache_before, docs, oids)],
                                    NO_FAULT])
            steps.append({'exc': exc, 'view': canon_impl(ab, obs['view']), 'view_sx': ab.view(obs['view']),
                          'loads': {ab.ident(i): v for i, v in obs['loads'].items() if v != 'ok'},
                          'known': st['id'] in live, 'known_before': known_before,
                          'cache': [ab.ident(i) for i in live.temporary_storage.keys()],
                          'txn_open': getattr(live, '_transaction_storage', None) is not None,
                          'model_index': len(model_steps) - 1 if obj is not None else None})
        line = sx(['c11', 'history', scratch.kind, [], [], model_steps])
        return {'backend': backend, 'steps': steps, 'line': line, 'names': {v: k for k, v in ab.num.items()}}
    finally:
        scratch.cleanup()


def _registry_job(args):
    case, backend = args
    import warnings
    warnings.filterwarnings('ignore')
    try:
        return impl_registry(case, backend)
    except core.MachineryError:
        raise
    except Exception:  # noqa
        import traceback
        return {'backend': backend, 'harness_error': traceback.format_exc()[-1500:]}


def run_registry(ctx, jobs: list):
    if not jobs:
        return
    with _pool(ctx) as pool:
        results = pool.map(_registry_job, jobs, chunksize=max(1, len(jobs) // 64))
    for res in results:
        if 'harness_error' in res:
            raise core.MachineryError('harness failed on a registry case: ' + res['harness_error'])
    answers = core.Lean.run([res['line'] for res in results])
    # judge: a construction that raised must leave exactly the old content (new = old); one that succeeded
    # must leave a loadable storage in which everything else kept its content
    jl, keys = [], []
    for n, res in enumerate(results):
        before = []
        for j, st in enumerate(res['steps']):
            fin = before if st['exc'] is not None else st['view_sx']
            if st['view_sx'] != 'missing' and fin != 'missing':
                keys.append((n, j))
                jl.append('(c11 judge %s %s %s)' % (sx(st['view_sx']), sx(before), sx(fin)))
            before = st['view_sx'] if st['view_sx'] != 'missing' else before
    judged = dict(zip(keys, core.Lean.run(jl)))
    for n, ((case, backend), res, ans) in enumerate(zip(jobs, results, answers)):
        if ans[0] != 'ok':
            raise core.MachineryError('model rejected registry request: %r' % (ans,))
        names = res['names']

        def nm(i):
            try:
                return names.get(int(i), '#%s' % i)
            except ValueError:
                return str(i)
        before_view = {}
        for j, (spec, st) in enumerate(zip(case['steps'], res['steps'])):
            line = '(registry %s step %d %s %s)' % (backend, j, spec['recipe'], res['line'])
            ctx.case(line, nontrivial=True)
            ctx.count('registry:' + spec['recipe'] + (':raised' if st['exc'] else ':stored'))
            ctx.count('registry-outcome:' + (st['exc'] or 'stored'))
            replay = {'kind': 'registry', 'case': case, 'backend': backend, 'step': j}
            where = ('constructing %s %r with the PulseStorage as registry (step %d, %s backend)'
                     % (spec['recipe'], spec['id'], j, backend))
            verdict = judged.get((n, j), ['violates', 'backend-unreadable'])
            what = None
            if st['exc'] is not None and (st['view'] != before_view or st['txn_open']
                                          or (st['known'] and not st['known_before'])):
                what = ('%s raised %s but left a trace: the backend lists %s (before: %s), identifier known to the '
                        'storage: %s' % (where, st['exc'], [nm(i) for i in sorted(st['view'] or ())],
                                         [nm(i) for i in sorted(before_view)], st['known']))
            elif verdict != 'ok':
                what = 'after %s (%s) the storage is not loadable: %s' % (
                    where, st['exc'] or 'stored', ' '.join(nm(x) for x in (verdict[1:] if isinstance(verdict, list) else [verdict])))
            elif st['loads']:
                what = 'after %s (%s) a new PulseStorage cannot load %s' % (
                    where, st['exc'] or 'stored', ', '.join('%s (%s)' % (nm(i), e) for i, e in sorted(st['loads'].items())))
            elif st['exc'] is None and not st['known']:
                what = '%s succeeded but the identifier is not in the storage' % where
            if what:
                ctx.violation(what, replay)
                break
            if st['model_index'] is not None:
                m = ans[1 + st['model_index']]
                if m[0] != 'none' or canon_view(m[3]) != st['view']:
                    ctx.drift('registry: state after a construction that stored', line, repr(st['view']),
                              repr((m[0], canon_view(m[3]))))
                    break
            before_view = st['view']


def _job(args):
    case, backend, modes, only = args
    import warnings
    warnings.filterwarnings('ignore')
    try:
        return impl_case(case, backend, modes, only)
    except core.MachineryError:
        raise
    except Exception as e:  # noqa
        import traceback
        return {'backend': backend, 'harness_error': traceback.format_exc()[-1500:]}


# ---------------------------------------------------------------------------------------------
# comparison with the model and verdicts
# ---------------------------------------------------------------------------------------------

EPILOGUE = ('publish', 'uncache')


def _strip_epilogue(kinds):
    return [k for k in kinds if k not in EPILOGUE]


def _dedup(seq):
    out = []
    for x in seq:
        if not out or out[-1] != x:
            out.append(x)
    return out


def check(ctx, case: dict, res: dict, answers: list, judged: dict):
    """Compare one (case, backend) result with the model's answers; `judged`: view-sexp line -> verdict."""
    backend = res['backend']
    label = '%s/%s' % (backend, case['txn']['op'])
    models = {}
    for v, ans in zip(res['variants'], answers):
        if ans[0] != 'ok':
            raise core.MachineryError('model rejected request: %r' % (ans,))
        models[v] = {'err': ans[1], 'wf': ans[2] == 'true', 'kinds': ans[3], 'fin': canon_store(ans[4]),
                     'states': [(canon_view(st[0]), st[1], sorted(int(c) for c in st[2])) for st in ans[5]]}
    # which compilation does the code under test perform?
    variant, aligned = res['variants'][0], False
    for v in res['variants']:
        if _strip_epilogue(models[v]['kinds']) == res['ref']['kinds']:
            variant, aligned = v, True
            break
    model = models[variant]
    fixed_model = models[res['variants'][0]]
    ctx.count('variant:' + (variant if aligned else 'unaligned'))
    wf = fixed_model['wf']
    ctx.count('wf:%s' % wf)
    replay_base = {'kind': 'txn', 'case': case, 'backend': backend}
    names = res['names']

    def nm(i):
        try:
            return names.get(int(i), '#%s' % i)
        except ValueError:
            return str(i)

    # -- the fault-free run: error class and final content (correspondence only; nothing failed)
    want_err = ERR_CLASS.get(res['ref']['exc'], res['ref']['exc'] or 'none')
    if want_err != model['err']:
        ctx.drift('fault-free outcome (exception class)', sx(['c11', label, case['index']]), want_err, model['err'])
    elif res['ref']['view'] != model['states'][-1][0]:
        ctx.drift('fault-free final content', sx(['c11', label, case['index']]), repr(res['ref']['view']),
                  repr(model['states'][-1][0]))
    elif model['err'] == 'none' and sorted(res['ref']['cache']) != model['states'][-1][2]:
        ctx.drift('fault-free final cache', sx(['c11', label, case['index']]), repr(sorted(res['ref']['cache'])),
                  repr(model['states'][-1][2]))
    ctx.count('outcome:' + want_err)

    n_steps = len(_strip_epilogue(model['kinds']))
    impl_seq = {'raise': [], 'crash': [], 'crash-after': []}
    for run in res['runs']:
        k, mode, m = run['k'], run['mode'], run['m']
        line = '(c11 fault %s %s %d %s)' % (backend, mode, k, res['lines'][0])
        nontrivial = 0 < m < n_steps or (n_steps == 0 and model['err'] != 'none') or (m > 0 and n_steps > 1)
        ctx.case(line, nontrivial=bool(nontrivial))
        ctx.count('mode:' + mode)
        ctx.count('backend:' + backend)
        impl_seq[mode].append(run['view'])
        verdict = judged[(sx(run['view_sx']), sx(res['pre']), sx(res['fin']))]
        bad_loads = run['loads']
        replay = dict(replay_base, fault={'mode': mode, 'k': k})
        what = None
        if wf:
            if verdict != 'ok':
                what = ('after a failure at event %d (%s mode, %s backend, %s) the storage is not loadable: %s'
                        % (k, mode, backend, case['txn']['op'],
                           ' '.join(nm(x) for x in (verdict[1:] if isinstance(verdict, list) else [verdict]))))
            elif bad_loads:
                what = ('after a failure at event %d (%s mode, %s backend) a new PulseStorage cannot load %s'
                        % (k, mode, backend, ', '.join('%s (%s)' % (nm(i), e) for i, e in sorted(bad_loads.items()))))
            elif mode == 'raise' and run['view'] == res['pre_view'] and run['view'] is not None and (
                    not set(run['cache']) <= set(run['view']) or not run['same_objects'] or run['txn_open']):
                what = ('failure at event %d before the first write (%s backend): the storage object keeps a trace '
                        '(cached %s, backend lists %s, transaction open: %s)'
                        % (k, backend, [nm(i) for i in run['cache']], [nm(i) for i in sorted(run['view'])],
                           run['txn_open']))
        else:
            ctx.count('skipped-judge:not-wf')
        if what:
            ctx.violation(what, replay)
            continue
        # model comparison at this position
        if aligned:
            want = model['states'][min(m, len(model['states']) - 1)]
            if run['view'] != want[0]:
                ctx.drift('state after failure at position k vs run (steps.take k)', line,
                          repr(run['view']), repr(want[0]))
            elif mode == 'raise' and 'cache' in run and m <= n_steps and run.get('fired') and wf \
                    and not set(run['cache']) <= set(run['view'] or ()):
                ctx.drift('cache after failure', line, repr(run['cache']), repr(want[2]))
    if not aligned:
        # the code performs other primitive calls than either modelled compilation: compare the sequences of
        # distinct observable states (stuttering equivalence) with the repaired model
        ctx.count('stuttering-comparison')
        want = _dedup([st[0] for st in fixed_model['states'][:len(_strip_epilogue(fixed_model['kinds'])) + 1]])
        for mode in ('raise', 'crash', 'crash-after'):
            if not impl_seq[mode]:
                continue
            got = _dedup([res['pre_view']] + impl_seq[mode])
            if got != want[:len(got)] and got != want:
                ctx.drift('sequence of observable states (unaligned trace)', sx(['c11', label, case['index'], mode]),
                          repr(got), repr(want))


# ---------------------------------------------------------------------------------------------
# the run
# ---------------------------------------------------------------------------------------------

def _pool(ctx):
    import multiprocessing
    n = int(os.environ.get('VERIF_PROCS', '0') or 0) or (8 if ctx.quick else 16)
    return multiprocessing.get_context('fork').Pool(n)


def run_cases(ctx, jobs: list):
    """jobs: (case, backend, modes, only). Executes the implementation side in worker processes, then the
    model in one batch, then the judge in one batch."""
    if not jobs:
        return
    with _pool(ctx) as pool:
        results = pool.map(_job, jobs, chunksize=max(1, len(jobs) // 64))
    lines = []
    for res in results:
        if 'harness_error' in res:
            raise core.MachineryError('harness failed on a case: ' + res['harness_error'])
        lines.extend(res['lines'])
    answers = core.Lean.run(lines)
    # judge every observed state with the executable spec
    jkeys = {}
    for res in results:
        for run in res['runs']:
            key = (sx(run['view_sx']), sx(res['pre']), sx(res['fin']))
            if key not in jkeys:
                jkeys[key] = '(c11 judge %s %s %s)' % key
    jl = list(jkeys.values())
    judged = dict(zip(jkeys.keys(), core.Lean.run(jl)))
    pos = 0
    for (case, _b, _m, _o), res in zip(jobs, results):
        n = len(res['lines'])
        check(ctx, case, res, answers[pos:pos + n], judged)
        pos += n
        ctx.count('txn:' + case['txn']['op'])
        ctx.count('steps:%d' % min(len(res['ref']['kinds']), 40))


def run(ctx: core.Ctx):
    ctx.rule = ('transactions = random stored content (0-3 trees of TablePT/SequencePT/RepetitionPT/MappingPT with '
                'named sub-templates, later trees referring to earlier entries) + one of: store/overwrite of a new '
                'tree (new, shared and reused named children), overwrite of an existing entry, deletion of an '
                'unreferenced entry, non-IO failures (un-serializable nested object, identifier clash, wrong '
                'identifier), direct backend calls with overwrite flags; each on dir/zip/dict/caching-dir backends; '
                'EVERY position k of one injected failure among the recorded events, in raise and crash mode '
                '(crash: at every call and after every file-level call, no flushing). Plus histories of 2-4 '
                'transactions on one PulseStorage sharing sub-template objects, a failure at every position of one of '
                'them, observed after every transaction. Plus constructions of all template classes with registry=storage '
                '(a third of them rejected by the constructor: no trace allowed). '
                'Non-trivial = the failure hits strictly inside the transaction\'s steps or is a front-end failure; '
                'distinct by (request line, backend, mode, k)')
    ctx.assumptions = [
        'a failure is an exception at a call boundary (raise mode) or process death at a call boundary (crash '
        'mode, forked child); torn writes inside one write/writestr call and fsync ordering are not modelled',
        'os.replace / os.rename within one directory is atomic (POSIX)',
    ]
    for rec in ctx.corpus():
        replay(ctx, rec, from_corpus=True)
        ctx.corpus_replayed += 1
    rng = ctx.fork('txn')
    n = ctx.n(200, 5000)
    jobs = []
    for index in range(n):
        case = gen_case(rng, index)
        for b in BACKENDS:
            if b == 'caching-dir' and index % 5:
                continue
            # crash mode forks one child per position. The directory backend gets it for every transaction
            # (few positions, and only a real process death shows what an unflushed file looks like); the zip
            # backend (many positions) for every fourth (quick) / second (thorough) transaction
            crash = b == 'dir' or index % (4 if ctx.quick else 2) == 0
            modes = ('raise', 'crash') if crash else ('raise',)
            jobs.append((case, b, modes, None))
        if len(jobs) >= 800:
            run_cases(ctx, jobs)
            jobs = []
    run_cases(ctx, jobs)
    ctx.extra['single_txn_stream_s'] = round(ctx.elapsed(), 1)
    hrng = ctx.fork('history')
    hjobs = []
    for index in range(ctx.n(60, 1500)):
        h = gen_history(hrng, index)
        for b in ('dict', 'dir', 'zip'):
            if b == 'zip' and index % 2:
                continue
            hjobs.append((h, b, None))
        if len(hjobs) >= 600:
            run_histories(ctx, hjobs)
            hjobs = []
    run_histories(ctx, hjobs)
    ctx.extra['history_stream_s'] = round(ctx.elapsed() - ctx.extra['single_txn_stream_s'], 1)
    rrng = ctx.fork('registry')
    rjobs = []
    for index in range(ctx.n(150, 4000)):
        rc = gen_registry_case(rrng, index)
        for b in ('dict', 'dir', 'zip'):
            if b != 'dict' and index % 3 != ('dir', 'zip').index(b):
                continue
            rjobs.append((rc, b))
    run_registry(ctx, rjobs)
    ctx.exhaustive_spaces.append('every failure position k of every generated transaction, raise and crash mode '
                                 '(%d transactions x backends)' % n)


def replay(ctx: core.Ctx, rec: dict, from_corpus: bool = False) -> bool:
    if rec.get('kind') == 'registry':
        before = len(ctx.violations)
        run_registry(ctx, [(rec['case'], rec['backend'])])
        return len(ctx.violations) == before
    if rec.get('kind') == 'history':
        before = len(ctx.violations)
        only = None
        if 'fault' in rec and not from_corpus:
            only = 'none' if rec['fault'] is None else rec['fault']['k']
        run_histories(ctx, [(rec['case'], rec['backend'], only)])
        return len(ctx.violations) == before
    if rec.get('kind') != 'txn':
        return True
    case = rec['case']
    only = None
    if rec.get('fault'):
        only = (rec['fault']['mode'], rec['fault']['k'])
    before = len(ctx.violations)
    sub = ctx
    run_cases(sub, [(case, rec['backend'], ('raise', 'crash'), only)])
    return len(ctx.violations) == before
