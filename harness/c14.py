"""C14 — time values are exact rationals with faithful float conversion.

Correspondence: the real `approximate_rational`, `TimeType.from_float` (three modes) and the
`TimeType` operator table are driven with the same inputs as the Lean model `QP.C14`; the
executable spec `isBestApproxB` (proved equivalent to `IsBestApprox`) judges the implementation's
answers.
"""
from __future__ import annotations

import fractions
import itertools
import math
import operator
import signal
import struct

import core
from core import sx, as_frac, to_frac

F = fractions.Fraction


def _imports():
    from qupulse.utils.types import TimeType
    from qupulse.utils import numeric
    import gmpy2
    return TimeType, numeric, gmpy2


# ---------------------------------------------------------------------------------------------
# case families
# ---------------------------------------------------------------------------------------------

class _Timeout(BaseException):
    pass


def _on_alarm(signum, frame):
    raise _Timeout()


IMPL_TIME_LIMIT = 2.0     # seconds per call; the loop is proved to need < den iterations
MAX_TIMEOUTS = 3          # after that many hanging calls a family stops calling the implementation


def with_time_limit(fn, *args):
    """Run fn(*args) in-process under a wall-clock limit (SIGALRM; the code under test is a pure
    Python loop, so the handler runs between two bytecodes). Non-termination is an observable
    outcome ('error', 'timeout'), not a hung check."""
    old = signal.signal(signal.SIGALRM, _on_alarm)
    signal.setitimer(signal.ITIMER_REAL, IMPL_TIME_LIMIT)
    try:
        return fn(*args)
    except _Timeout:
        return ['error', 'timeout']
    finally:
        signal.setitimer(signal.ITIMER_REAL, 0)
        signal.signal(signal.SIGALRM, old)


def _approx_impl(x: F, e: F):
    TimeType, numeric, gmpy2 = _imports()
    try:
        r = numeric.approximate_rational(gmpy2.mpq(x.numerator, x.denominator),
                                         gmpy2.mpq(e.numerator, e.denominator), gmpy2.mpq)
        return ['ok', F(int(r.numerator), int(r.denominator))]
    except Exception as exc:  # noqa
        return ['error', core.classify_exception(exc)]


def approx_impl(x: F, e: F):
    return with_time_limit(_approx_impl, x, e)


def approx_cases_exhaustive(bound: int):
    xs = sorted({F(p, q) for q in range(1, bound + 1) for p in range(-2 * q, 3 * q + 1)})
    es = sorted({F(p, q) for q in range(1, bound + 1) for p in range(1, q + 1)})
    for x in xs:
        for e in es:
            yield x, e


def approx_cases_random(rng, n):
    for _ in range(n):
        kind = rng.random()
        if kind < 0.4:
            q = rng.randrange(1, 1 << rng.randrange(1, 50))
            x = F(rng.randrange(-3 * q, 3 * q + 1), q)
            eq = rng.randrange(1, 1 << rng.randrange(1, 50))
            e = F(rng.randrange(1, eq + 1), eq)
        elif kind < 0.7:
            # float-born values with decimal tolerances, the way qupulse uses it
            x = F(rng.uniform(-1000, 1000))
            e = F(10) ** -rng.randrange(1, 15)
        elif kind < 0.9:
            # x close to a simple fraction, tolerance around the distance (boundary cases)
            base = F(rng.randrange(-50, 50), rng.randrange(1, 30))
            delta = F(1, rng.randrange(2, 10 ** 6))
            x = base + rng.choice([-1, 1]) * delta
            e = delta * rng.choice([F(1), F(1, 2), F(2), F(3, 2), F(999, 1000), F(1001, 1000)])
            e = min(e, F(1))
        else:
            x = F(rng.randrange(-10 ** 6, 10 ** 6), rng.randrange(1, 10 ** 6))
            e = F(rng.randrange(-3, 1), rng.randrange(1, 10))  # malformed stream: e <= 0
        yield x, e


BINOPS = {
    'add': operator.add, 'sub': operator.sub, 'mul': operator.mul, 'truediv': operator.truediv,
    'floordiv': operator.floordiv, 'mod': operator.mod,
    'lt': operator.lt, 'le': operator.le, 'gt': operator.gt, 'ge': operator.ge, 'eq': operator.eq,
}
ARITH = ('add', 'sub', 'mul', 'truediv', 'floordiv', 'mod')
UNOPS = {
    'neg': operator.neg, 'abs': abs, 'floor': math.floor, 'ceil': math.ceil, 'trunc': math.trunc,
    'round': round, 'hash': hash, 'int': int,
}


def operand_kinds():
    """name -> (constructor from Fraction or None if not representable, arithmetic value map)."""
    TimeType, numeric, gmpy2 = _imports()
    import numpy
    import sympy

    def as_float(fr):
        f = fr.numerator / fr.denominator
        return f

    return {
        'timetype': lambda fr: TimeType.from_fraction(fr.numerator, fr.denominator),
        'int': lambda fr: int(fr) if fr.denominator == 1 else None,
        'npint': lambda fr: numpy.int64(int(fr)) if fr.denominator == 1 and abs(fr) < 2 ** 62 else None,
        'fraction': lambda fr: fr,
        'mpq': lambda fr: gmpy2.mpq(fr.numerator, fr.denominator),
        'sympy': lambda fr: sympy.Rational(fr.numerator, fr.denominator),
        'float': as_float,
        'npfloat': lambda fr: numpy.float64(as_float(fr)),
    }


def float_arith_value(f: float) -> F:
    """documented: a float operand counts as its shortest decimal representation in arithmetic"""
    return F(repr(float(f)))


def canon_result(r):
    TimeType, numeric, gmpy2 = _imports()
    if isinstance(r, bool) or type(r).__name__ == 'bool_':
        return 'true' if bool(r) else 'false'
    if isinstance(r, TimeType):
        return sx(F(int(r.numerator), int(r.denominator)))
    if isinstance(r, int):
        return sx(F(r))
    if type(r).__name__ in ('mpz', 'mpq'):
        return sx(F(int(r.numerator), int(r.denominator)))
    if isinstance(r, F):
        return sx(r)
    import sympy
    if isinstance(r, sympy.Rational):            # sympy operand on the left: sympy's exact types
        return sx(F(int(r.p), int(r.q)))
    if r is sympy.true or r is sympy.false:
        return 'true' if r is sympy.true else 'false'
    if r is sympy.zoo or r is sympy.nan:         # sympy's answer to x/0
        return 'error:zero_division'
    return 'inexact:' + type(r).__name__


def canon_model(ans):
    if isinstance(ans, list) and ans and ans[0] == 'q':
        return sx(as_frac(ans))
    if isinstance(ans, list) and ans and ans[0] == 'error':
        return 'error:' + ans[1]
    if ans in ('true', 'false'):
        return ans
    if isinstance(ans, str):
        return sx(F(int(ans)))
    return repr(ans)


def simplest_between(lo: F, hi: F) -> F:
    """Fraction of smallest denominator in the open interval (lo, hi) — Stern-Brocot descent.
    Search aid only (used where the Lean judge skips its linear denominator scan); never decisive
    on its own: a difference is confirmed by the Lean judge on a reduced instance or reported as such."""
    assert lo < hi
    fl = math.floor(lo)
    if fl + 1 < hi:
        return F(fl + 1) if fl + 1 > lo else F(fl + 2)
    if lo == fl:
        # (fl, hi) with hi <= fl+1: fl + 1/n with smallest n such that 1/n < hi - fl
        n = math.floor(1 / (hi - fl)) + 1
        return fl + F(1, n)
    # lo, hi in (fl, fl+1]: recurse on reciprocals of fractional parts
    r = simplest_between(1 / (hi - fl), 1 / (lo - fl))
    return fl + 1 / r


# ---------------------------------------------------------------------------------------------
# the run
# ---------------------------------------------------------------------------------------------

def _check_approx(ctx, cases, label):
    """cases: list of (x, e). Compare impl / model, judge impl."""
    lines = []
    impl = []
    timeouts = 0
    for x, e in cases:
        r = approx_impl(x, e)
        impl.append(r)
        lines.append(sx(['c14', 'approx', x, e]))
        if r == ['error', 'timeout']:
            timeouts += 1
            if timeouts >= MAX_TIMEOUTS:
                ctx.count(label + ':stopped-after-timeouts')
                break
    cases = cases[:len(lines)]
    # judge every implementation answer with the executable spec
    jl = []
    for (x, e), r in zip(cases, impl):
        if r[0] == 'ok':
            jl.append(sx(['c14', 'judge-approx', x, e, r[1]]))
    answers = core.Lean.run(lines + jl)
    model = answers[:len(lines)]
    judged = iter(answers[len(lines):])
    for (x, e), r, m, line in zip(cases, impl, model, lines):
        nontrivial = r[0] == 'ok' and x.denominator != 1
        ctx.case(line, nontrivial=nontrivial)
        ctx.count(label + ':' + ('ok' if r[0] == 'ok' else 'error:' + r[1]))
        if r[0] == 'ok':
            verdict = next(judged)[1]
            mval = F(int(m[1]), int(m[2])) if m[0] == 'ok' and int(m[2]) != 0 else None
            agree = (m[0] == 'ok' and mval == r[1])
            if r[1].denominator > 1:
                ctx.count(label + ':loop-entered')
        else:
            verdict = 'ok'
            agree = (m[0] == 'error' and m[1] == r[1])
        if verdict == 'inside-only':
            ctx.count(label + ':judge-inside-only')
            best = simplest_between(x - e, x + e)
            verdict = 'ok' if best.denominator == r[1].denominator else 'not-minimal(denominator %d exists)' % best.denominator
        if verdict != 'ok':
            ctx.disagreements += 1
            ctx.violation('approximate_rational(%s, %s) returned %s: %s' % (x, e, r[1], verdict),
                          {'kind': 'approx', 'x': str(x), 'e': str(e), 'impl': str(r), 'model': str(m),
                           'judge': verdict})
        elif r[0] == 'error' and e > 0:
            what = ('did not return within %.0f s (the loop is proved to terminate)' % IMPL_TIME_LIMIT
                    if r[1] == 'timeout' else 'raised %s for a valid tolerance' % r[1])
            ctx.violation('approximate_rational(%s, %s) %s' % (x, e, what),
                          {'kind': 'approx', 'x': str(x), 'e': str(e), 'impl': str(r), 'model': str(m)})
        elif r[0] == 'ok' and e <= 0:
            ctx.violation('approximate_rational(%s, %s) accepted a non-positive tolerance' % (x, e),
                          {'kind': 'approx', 'x': str(x), 'e': str(e), 'impl': str(r)})
        elif not agree:
            ctx.drift('approximate_rational vs QP.C14.approximateRationalPair', line, str(r), str(m))


def _ops_cases(ctx, n):
    rng = ctx.fork('ops')
    kinds = operand_kinds()
    TimeType, numeric, gmpy2 = _imports()
    out = []
    pool = [F(0), F(1), F(-1), F(1, 2), F(-1, 2), F(3, 2), F(5, 2), F(-5, 2), F(1, 3), F(2, 3), F(7), F(-7),
            F(1, 10), F(3, 10), F(2 ** 61 - 1), F(2 ** 61 - 1, 3), F(1, 2 ** 61 - 2), F(10 ** 20 + 1, 10 ** 20)]
    for _ in range(n):
        if rng.random() < 0.35:
            a = rng.choice(pool)
            b = rng.choice(pool)
        else:
            qa = rng.randrange(1, 1 << rng.randrange(1, 40))
            qb = rng.randrange(1, 1 << rng.randrange(1, 40))
            a = F(rng.randrange(-5 * qa, 5 * qa), qa)
            b = F(rng.randrange(-5 * qb, 5 * qb), qb) if rng.random() < 0.8 else F(rng.randrange(-5, 6))
        op = rng.choice(list(BINOPS))
        kind = rng.choice(list(kinds))
        side = rng.choice(['left', 'right'])
        if kind == 'sympy':
            # with a sympy number as the *left* operand sympy's own operator decides (it converts the
            # TimeType through a float: Integer(-7) // TimeType(1, 10) == -71); that is sympy's
            # behaviour, not qupulse's, so sympy operands are only used on the right-hand side.
            side = 'left'
        out.append((op, a, b, kind, side))
    return out


def _check_round(ctx, cases):
    """cases: (Fraction a, ndigits | None). round(TimeType(a), ndigits) against the Lean value roundNdigits /
    roundHalfEven (the value is compared, not the Python type: an int for an integer-valued result is fine)."""
    TimeType, numeric, gmpy2 = _imports()
    lines, gots = [], []
    for a, nd in cases:
        tt = TimeType.from_fraction(a.numerator, a.denominator)
        try:
            got = canon_result(round(tt) if nd is None else round(tt, nd))
        except Exception as exc:  # noqa
            got = 'error:' + core.classify_exception(exc)
        lines.append(sx(['c14', 'unop', 'round', a]) if nd is None else sx(['c14', 'round-nd', a, nd]))
        gots.append(got)
    for (a, nd), line, got, ans in zip(cases, lines, gots, core.Lean.run(lines)):
        want = canon_model(ans)
        ctx.case(line)
        ctx.count('op:round-ndigits=%s' % nd)
        if got != want:
            ctx.disagreements += 1
            ctx.violation('round(TimeType(%s), %s) gives %s, exact round-half-even result is %s' % (a, nd, got, want),
                          {'kind': 'round', 'value': str(a), 'ndigits': nd, 'impl': got, 'spec': want})


def _check_ops(ctx, n):
    kinds = operand_kinds()
    TimeType, numeric, gmpy2 = _imports()
    lines, expect_impl, meta = [], [], []
    for op, a, b, kind, side in _ops_cases(ctx, n):
        other = kinds[kind](b)
        if other is None:
            continue
        tt = TimeType.from_fraction(a.numerator, a.denominator)
        is_float = kind in ('float', 'npfloat')
        if is_float:
            if not math.isfinite(float(other)):
                continue
            # documented semantics of float operands
            bval = float_arith_value(other) if op in ARITH else F(float(other))
        else:
            bval = b
        try:
            res = BINOPS[op](tt, other) if side == 'left' else BINOPS[op](other, tt)
            got = canon_result(res)
        except ZeroDivisionError:
            got = 'error:zero_division'
        except Exception as exc:  # noqa
            got = 'error:' + core.classify_exception(exc)
        la, lb = (a, bval) if side == 'left' else (bval, a)
        lines.append(sx(['c14', 'binop', op, la, lb]))
        expect_impl.append(got)
        meta.append((op, a, b, kind, side))
    # unary
    urng = ctx.fork('unops')
    umeta = []
    for _ in range(n // 2):
        q = urng.randrange(1, 1 << urng.randrange(1, 40))
        a = urng.choice([F(urng.randrange(-4 * q, 4 * q), q), F(urng.randrange(-9, 10), 2),
                            F(urng.randrange(-100, 100))])
        op = urng.choice(list(UNOPS))
        tt = TimeType.from_fraction(a.numerator, a.denominator)
        try:
            got = canon_result(UNOPS[op](tt))
        except Exception as exc:  # noqa
            got = 'error:' + core.classify_exception(exc)
        lines.append(sx(['c14', 'unop', op, a]))
        expect_impl.append(got)
        umeta.append((op, a))
    # round(t, ndigits): a rational, round-half-even at the n-th decimal digit (n < 0: tens, hundreds, ...)
    rcases = []
    for _ in range(n // 4):
        nd = urng.choice([None, -3, -2, -1, 0, 1, 2, 3, 4, 5, 6])
        k = urng.random()
        if k < 0.4 and nd is not None:
            # ties and near-ties at that digit: (2m+1)/2 units, possibly a hair off
            unit = F(10) ** -nd
            a = (2 * urng.randrange(-2000, 2000) + 1) * unit / 2 + urng.choice([0, 0, 1, -1]) * unit / 10 ** 9
        elif k < 0.8:
            q = urng.randrange(1, 1 << urng.randrange(1, 40))
            a = F(urng.randrange(-4000 * q, 4000 * q), q)
        else:
            a = F(urng.randrange(-10 ** 6, 10 ** 6), urng.choice([1, 2, 3, 7, 8, 1000, 3000]))
        rcases.append((a, nd))
    _check_round(ctx, rcases)
    answers = core.Lean.run(lines)
    allmeta = meta + umeta
    pf21 = False
    for line, got, ans, m in zip(lines, expect_impl, answers, allmeta):
        want = canon_model(ans)
        ctx.case(line)
        ctx.count('op:' + m[0])
        if len(m) == 5:
            ctx.count('operand:' + m[3])
        if got != want:
            ctx.disagreements += 1
            # the Lean value *is* the rational-field answer, i.e. the spec: a difference is a violation
            ctx.violation('TimeType operator %s gives %s, exact rational result is %s' % (m, got, want),
                          {'kind': 'op', 'case': [str(v) for v in m], 'impl': got, 'spec': want, 'line': line})
    # hash consistency across types (equal values hash equally)
    for _ in range(n // 4):
        q = urng.randrange(1, 1 << urng.randrange(1, 70))
        a = F(urng.randrange(-4 * q, 4 * q), q)
        tt = TimeType.from_fraction(a.numerator, a.denominator)
        ctx.case(sx(['hash-eq', a]))
        if hash(tt) != hash(a) or (a.denominator == 1 and hash(tt) != hash(int(a))):
            ctx.violation('hash(TimeType(%s)) differs from hash of the equal Fraction/int' % a,
                          {'kind': 'hash', 'value': str(a)})


# ---------------------------------------------------------------------------------------------
# history family: operands of DIFFERENT kinds carrying EQUAL values, within one process
# ---------------------------------------------------------------------------------------------

FLOATLIKE = ('float', 'npfloat', 'npfloat32')


def equal_value_group(value):
    """value: a python float or int. Returns {kind: operand object}; all operands compare equal to `value`
    but the documented meaning differs by kind: a float-like operand counts as the shortest decimal
    representation of float(operand) in arithmetic and as its exact binary value in comparisons, every
    other kind is the exact rational it holds."""
    TimeType, numeric, gmpy2 = _imports()
    import numpy
    import sympy
    out = {}
    if isinstance(value, float):
        ex = F(value)
        out['float'] = value
        out['npfloat'] = numpy.float64(value)
        with numpy.errstate(all='ignore'):
            f32 = numpy.float32(value)
        if math.isfinite(float(f32)) and float(f32) == value:
            out['npfloat32'] = f32
        out['fraction'] = ex
        out['mpq'] = gmpy2.mpq(ex.numerator, ex.denominator)
        out['timetype'] = TimeType.from_float(value, 0)
        out['sympy'] = sympy.Rational(ex.numerator, ex.denominator)
        if ex.denominator == 1:
            out['int'] = int(ex)
    else:
        n = int(value)
        out['int'] = n
        if abs(n) < 2 ** 62:
            out['npint'] = numpy.int64(n)
        try:
            fl = float(n)
        except OverflowError:
            fl = None
        if fl is not None and fl == n:
            out['float'] = fl
            out['npfloat'] = numpy.float64(fl)
        out['fraction'] = F(n)
        out['mpq'] = gmpy2.mpq(n)
        out['timetype'] = TimeType.from_fraction(n, 1)
        out['sympy'] = sympy.Integer(n)
    return out


def documented_value(kind, obj, op) -> F:
    if kind in FLOATLIKE:
        return float_arith_value(float(obj)) if op in ARITH else F(float(obj))
    if kind == 'timetype' or kind == 'mpq':
        return F(int(obj.numerator), int(obj.denominator))
    if kind == 'sympy':
        return F(int(obj.p), int(obj.q))
    return F(int(obj)) if kind in ('int', 'npint') else F(obj)


def _history_values(rng, n):
    """floats whose shortest decimal differs from the binary value (the interesting ones), dyadic floats, and
    integers beyond 2**53 (float(n) == n but repr(float(n)) is a different integer)."""
    fixed = [0.1, 0.2, 0.3, 0.7, 1.1, 2.675, 1e-7, 1.5e-07, 123456.789, 0.5, -0.75, 3.0, 1e22, 1e23,
             2 ** 60, 2 ** 70, -(2 ** 55), 7, 0, -1, 10 ** 17]
    out = list(fixed)
    for _ in range(n):
        k = rng.random()
        if k < 0.55:
            out.append(round(rng.uniform(-1000, 1000), rng.randrange(1, 8)))
        elif k < 0.7:
            out.append(float(rng.randrange(-10 ** 4, 10 ** 4)) / rng.choice([2, 4, 8, 1024]))      # dyadic
        elif k < 0.8:
            out.append(float(numpy_f32(rng.uniform(-100, 100))))                                     # float32-exact
        elif k < 0.9:
            out.append(rng.randrange(-100, 100))
        else:
            out.append(rng.choice([-1, 1]) * (rng.getrandbits(53) | (1 << 52)) << rng.randrange(1, 12))   # > 2**53
    return out


def numpy_f32(x):
    import numpy
    return numpy.float32(x)


def _run_history_group(TimeType, value, op, a: F, side, order):
    """Apply `op` between TimeType(a) and every operand of the group in the given order. Returns a list of
    (kind, got, line) where line is the Lean request for the documented meaning."""
    group = equal_value_group(value)
    tt = TimeType.from_fraction(a.numerator, a.denominator)
    out = []
    for kind in order:
        if kind not in group:
            continue
        if kind == 'sympy' and side == 'right':
            continue                                   # sympy's own operator would decide, see _ops_cases
        other = group[kind]
        bval = documented_value(kind, other, op)
        try:
            res = BINOPS[op](tt, other) if side == 'left' else BINOPS[op](other, tt)
            got = canon_result(res)
        except ZeroDivisionError:
            got = 'error:zero_division'
        except Exception as exc:  # noqa
            got = 'error:' + core.classify_exception(exc)
        la, lb = (a, bval) if side == 'left' else (bval, a)
        out.append((kind, got, sx(['c14', 'binop', op, la, lb])))
    return out


ALL_KINDS = ('float', 'npfloat', 'npfloat32', 'fraction', 'mpq', 'timetype', 'sympy', 'int', 'npint')


def _judge_history(ctx, groups):
    """groups: list of (value, op, a, side, order, results)."""
    lines = [line for g in groups for (_, _, line) in g[5]]
    answers = iter(core.Lean.run(lines))
    for value, op, a, side, order, results in groups:
        done = []
        for kind, got, line in results:
            want = canon_model(next(answers))
            ctx.case(sx(['history', repr(value), op, a, side, kind, len(done)]))
            ctx.count('history:' + ('first' if not done else 'later') + ':' + kind)
            if got != want:
                ctx.disagreements += 1
                ctx.violation(
                    'TimeType(%s) %s %s operand %r (%s side) after the same operation with equal-valued operands of '
                    'kinds %s in this process: got %s, documented rational result %s'
                    % (a, op, kind, value, side, done or '[] (first use)', got, want),
                    {'kind': 'history', 'value': repr(value), 'op': op, 't': str(a), 'side': side,
                     'order': list(order), 'failing_kind': kind, 'impl': got, 'spec': want})
            done.append(kind)


def _check_history(ctx, n):
    TimeType, numeric, gmpy2 = _imports()
    rng = ctx.fork('history')
    groups = []
    for value in _history_values(rng, n):
        if isinstance(value, float) and not math.isfinite(value):
            continue
        op = rng.choice(list(BINOPS))
        q = rng.randrange(1, 1 << rng.randrange(1, 12))
        a = F(rng.randrange(-5 * q, 5 * q), q)
        side = rng.choice(['left', 'right'])
        order = list(ALL_KINDS)
        rng.shuffle(order)
        # both orders: the same value cannot be "first" twice in one process, so half of the groups lead
        # with a float-like kind and half with an exact kind
        lead_float = rng.random() < 0.5
        order.sort(key=lambda k: (k in FLOATLIKE) != lead_float)
        groups.append((value, op, a, side, order, _run_history_group(TimeType, value, op, a, side, order)))
    _judge_history(ctx, groups)


def _from_float_guarded(TimeType, f, *args):
    try:
        return TimeType.from_float(f, *args)
    except Exception as exc:  # noqa
        return ['error', core.classify_exception(exc)]


def _float_bits(f: float) -> int:
    return struct.unpack('<Q', struct.pack('<d', f))[0]


ULP_FACTORS = (1e-3, 0.1, 0.3, 0.49, 0.5, 0.51, 1.0, 3.0, 1e3)


def _from_float_tol_cases(rng, n):
    """(float, tolerance) pairs for TimeType.from_float(f, err), 0 < err <= 1. Three streams:
    ordinary (uniform floats, decimal tolerances), ulp-relative (err = c * ulp(f), c around 1/2, for floats of
    magnitude 1e-3 ... 1e18 including large non-integral ones), and floats next to simple fractions with
    tolerances from 1e-20 to 1 (so that the simple fraction is or is not inside)."""
    cases = []
    for _ in range(n):
        f = rng.uniform(-50, 50)
        err = rng.choice([1e-3, 1e-6, 1e-9, 0.5, 1.0, 0.25, rng.uniform(1e-12, 1.0)])
        cases.append((f, err))

    def some_float():
        k = rng.random()
        if k < 0.3:
            return rng.choice([-1, 1]) * rng.uniform(1, 10) * 10.0 ** rng.randrange(-3, 19)
        if k < 0.6:
            # large non-integral floats: k + simple dyadic / decimal part
            base = rng.randrange(10 ** 10, 10 ** 15) if rng.random() < 0.7 else rng.randrange(1, 10 ** 10)
            return rng.choice([-1, 1]) * (base + rng.choice([0.375, 0.5, 0.25, 0.125, 0.1, 0.3, 0.7, 1 / 3]))
        # next to a simple fraction
        q = rng.randrange(1, 13)
        return rng.randrange(-3 * q, 3 * q + 1) / q + rng.choice([0, 0, 1, -1, 3]) * rng.choice([0.0, 1e-17, 1e-12])

    fixed = [(0.1, 6e-18), (1e15 + 0.375, 0.06), (1 / 3, 2e-17), (2 / 3, 5e-17), (0.7, 5e-17), (0.1, 1e-20),
             (12345678901.3, 1e-6), (0.1, 1e-17), (0.3, 2e-17)]
    cases.extend(fixed)
    for _ in range(n):
        f = some_float()
        if not math.isfinite(f):
            continue
        if rng.random() < 0.7:
            err = rng.choice(ULP_FACTORS) * math.ulp(f)
        else:
            err = 10.0 ** rng.uniform(-20, 0)
        if 0 < err <= 1:
            cases.append((f, err))
    return cases


def _check_from_float_tol(ctx, cases):
    """TimeType.from_float(f, err) for python floats f: the answer must be the fraction of smallest denominator
    strictly inside (f - err, f + err) taken with the EXACT values of the two floats (judge-approx; for big
    denominators the Lean judge only checks `inside` and the Stern-Brocot descent supplies the smaller-denominator
    witness)."""
    TimeType, numeric, gmpy2 = _imports()
    jl, res = [], []
    kept, timeouts = [], 0
    for f, err in cases:
        t = with_time_limit(_from_float_guarded, TimeType, f, err)
        if isinstance(t, list):          # ['error', 'timeout' | exception class]
            ctx.case(sx(['c14', 'from-float-tol', F(f), F(err)]))
            what = ('did not return within %.0f s' % IMPL_TIME_LIMIT) if t[1] == 'timeout' else 'raised ' + t[1]
            ctx.violation('TimeType.from_float(%r, %r) %s for a valid tolerance' % (f, err, what),
                          {'kind': 'from_float_tol', 'value': repr(f), 'err': repr(err), 'impl': t[1]})
            if t[1] == 'timeout':
                timeouts += 1
                if timeouts >= MAX_TIMEOUTS:
                    break
            continue
        r = F(int(t.numerator), int(t.denominator))
        res.append(r)
        kept.append((f, err))
        jl.append(sx(['c14', 'judge-approx', F(f), F(err), r]))
    cases = kept
    for (f, err), r, ans, line in zip(cases, res, core.Lean.run(jl), jl):
        ctx.case(line)
        ctx.count('from_float:tolerance')
        ctx.count('from_float:tolerance:' + ('below-half-ulp' if err < math.ulp(f) / 2 else 'above-half-ulp'))
        verdict = ans[1]
        if verdict == 'inside-only':
            ctx.count('from_float:tolerance:judge-inside-only')
            best = simplest_between(F(f) - F(err), F(f) + F(err))
            verdict = 'ok' if best.denominator == r.denominator else \
                'not-minimal (%s with the smaller denominator %d is strictly inside too)' % (best, best.denominator)
        if verdict != 'ok':
            ctx.violation('TimeType.from_float(%r, %r) = %s: %s' % (f, err, r, verdict),
                          {'kind': 'from_float_tol', 'value': repr(f), 'err': repr(err), 'impl': str(r),
                           'judge': verdict})


def _check_from_float(ctx, n):
    TimeType, numeric, gmpy2 = _imports()
    rng = ctx.fork('from_float')
    floats = [0.0, -0.0, 0.1, 0.2, 0.3, 0.8, 1e-7, 1.5e-07, 1e22, 1e23, 5e-324, 2.2250738585072014e-308,
              1.7976931348623157e308, 123456.789, 1 / 3, 2 / 3, 1e16, 9007199254740993.0, -2.5, 1e-5]
    for _ in range(n):
        k = rng.random()
        if k < 0.3:
            floats.append(struct.unpack('<d', struct.pack('<Q', rng.getrandbits(64)))[0])
        elif k < 0.6:
            floats.append(round(rng.uniform(-1000, 1000), rng.randrange(0, 12)))
        elif k < 0.8:
            floats.append(rng.uniform(-1, 1) * 10.0 ** rng.randrange(-30, 30))
        else:
            floats.append(float(rng.randrange(-10 ** 6, 10 ** 6)) / rng.choice([1, 2, 4, 8, 10, 100, 1000]))
    lines, got, meta = [], [], []
    for f in floats:
        if not math.isfinite(f):
            for mode in (None, 0):
                ctx.case('from_float-nonfinite-%r-%r' % (f, mode), nontrivial=False)
                try:
                    TimeType.from_float(f, mode) if mode is not None else TimeType.from_float(f)
                    ctx.violation('from_float(%r) accepted a non-finite float' % f, {'kind': 'from_float', 'value': repr(f)})
                except (ValueError, OverflowError):
                    pass
            continue
        s = repr(f)
        t_default = _from_float_guarded(TimeType, f)
        lines.append(sx(['c14', 'parse-decimal', s]))
        got.append(t_default[1] if isinstance(t_default, list)
                   else F(int(t_default.numerator), int(t_default.denominator)))
        meta.append(('default', f))
        t_exact = _from_float_guarded(TimeType, f, 0)
        lines.append(sx(['c14', 'of-bits', _float_bits(f)]))
        got.append(t_exact[1] if isinstance(t_exact, list)
                   else F(int(t_exact.numerator), int(t_exact.denominator)))
        meta.append(('exact', f))
    answers = core.Lean.run(lines)
    for line, g, ans, (mode, f) in zip(lines, got, answers, meta):
        ctx.case(line)
        ctx.count('from_float:' + mode)
        want = as_frac(ans[1]) if ans[0] == 'ok' else None
        if want != g:
            ctx.disagreements += 1
            ctx.violation('TimeType.from_float(%r, mode=%s) = %s, spec value %s' % (f, mode, g, want),
                          {'kind': 'from_float', 'value': repr(f), 'mode': mode, 'impl': str(g), 'spec': str(want)})
            continue
        # converting back returns the same float (default and exact mode)
        back = int(g.numerator) / int(g.denominator) if g != 0 else 0.0
        t = TimeType.from_float(f) if mode == 'default' else TimeType.from_float(f, 0)
        try:
            back_float = float(t)
        except Exception as exc:  # noqa: converting back must not raise for a finite float
            back_float = 'raises %s' % type(exc).__name__
        if back_float != f:
            ctx.violation('float(TimeType.from_float(%r, mode=%s)) = %r' % (f, mode, back_float),
                          {'kind': 'from_float_back', 'value': repr(f), 'mode': mode})
    # tolerance mode through the float entry point: judged with the exact float values
    _check_from_float_tol(ctx, _from_float_tol_cases(rng, n // 2))
    for bad in (-1e-3, 1.5):
        ctx.case('from_float-bad-tolerance-%r' % bad, nontrivial=False)
        try:
            TimeType.from_float(0.3, bad)
            ctx.violation('from_float accepted tolerance %r' % bad, {'kind': 'from_float_tol', 'err': repr(bad)})
        except ValueError:
            pass


def _known_pf21(ctx):
    """PF-21: TimeType ** integer is not exact."""
    TimeType, numeric, gmpy2 = _imports()
    for kf in ctx.findings.for_property('C14'):
        if kf.get('finding') == 'PF-21':
            r = TimeType.from_fraction(1, 3) ** 2
            exact = isinstance(r, TimeType) and F(int(r.numerator), int(r.denominator)) == F(1, 9)
            if not exact:
                ctx.known_finding('PF-21', 'TimeType(1,3)**2 is %r, not the rational 1/9' % (r,))
            return
    # not listed: power is part of the operator table
    for base, ex in [(F(1, 3), 2), (F(-2, 5), 3), (F(7, 2), 0), (F(3, 4), -2)]:
        ctx.case('pow-%s-%s' % (base, ex))
        r = TimeType.from_fraction(base.numerator, base.denominator) ** ex
        want = base ** ex
        ok = isinstance(r, TimeType) and F(int(r.numerator), int(r.denominator)) == want
        if not ok:
            ctx.violation('TimeType(%s) ** %d = %r, exact rational result is %s' % (base, ex, r, want),
                          {'kind': 'pow', 'base': str(base), 'exp': ex, 'impl': repr(r)})


def run(ctx: core.Ctx):
    ctx.rule = ('approximate_rational: exhaustive x=p/q, e=p\'/q\' with q,q\'<=B, x in [-2,3], plus random '
                '(wide, float-born, near-simple-fraction boundary, malformed e<=0); TimeType operator table over '
                '8 operand kinds x 11 binary + 8 unary operators + round(t, ndigits) for ndigits in -3..6; history family: one operator applied in one process to '
                'operands of different kinds carrying equal values (float / numpy float64,float32 / Fraction / mpq / '
                'exact TimeType / sympy / int), float-like kinds first or exact kinds first; from_float in 3 modes (tolerance mode with tolerances relative to ulp(f), large non-integral floats and floats next to simple fractions). Non-trivial = the '
                'approximation loop is entered (non-integer x) or an operator/convert case; distinct by canonical line')
    ctx.assumptions = [
        'CPython float repr is the shortest round-tripping decimal and int/int true division is correctly rounded',
        'gmpy2.mpq arithmetic is exact; Python // and divmod are floor division',
    ]
    # corpus first
    for rec in ctx.corpus():
        replay(ctx, rec, from_corpus=True)
        ctx.corpus_replayed += 1
    bound = ctx.n(9, 24)
    cases = list(approx_cases_exhaustive(bound))
    ctx.exhaustive_spaces.append('approximate_rational: all x=p/q in [-2,3], e=p\'/q\' in (0,1], q,q\'<=%d (%d cases)'
                                 % (bound, len(cases)))
    _check_approx(ctx, cases, 'approx-exh')
    _check_approx(ctx, list(approx_cases_random(ctx.fork('approx'), ctx.n(3000, 60000))), 'approx-rnd')
    _check_history(ctx, ctx.n(700, 12000))
    _check_ops(ctx, ctx.n(4000, 60000))
    _check_from_float(ctx, ctx.n(1500, 30000))
    _known_pf21(ctx)


def replay(ctx: core.Ctx, rec: dict, from_corpus: bool = False) -> bool:
    kind = rec.get('kind')
    if kind == 'approx':
        x, e = F(rec['x']), F(rec['e'])
        _check_approx(ctx, [(x, e)], 'replay')
    elif kind == 'history':
        # a fresh process: the recorded order of operand kinds is what matters
        TimeType, numeric, gmpy2 = _imports()
        v = rec['value']
        value = float(v) if any(c in v for c in '.einf') else int(v)
        a = F(rec['t'])
        res = _run_history_group(TimeType, value, rec['op'], a, rec['side'], rec['order'])
        _judge_history(ctx, [(value, rec['op'], a, rec['side'], rec['order'], res)])
    elif kind == 'from_float_tol' and 'value' in rec and 'err' in rec:
        _check_from_float_tol(ctx, [(float(rec['value']), float(rec['err']))])
    elif kind == 'round':
        _check_round(ctx, [(F(rec['value']), rec['ndigits'])])
    elif kind in ('op', 'hash', 'pow', 'from_float', 'from_float_tol', 'from_float_back'):
        # these families are deterministic given the seed: re-run the family at the recorded seed
        sub = core.Ctx(ctx.pid, rec.get('tier', 'quick'), rec.get('seed', 0))
        sub.violations = ctx.violations
        if kind in ('op', 'hash'):
            _check_ops(sub, sub.n(4000, 60000))
        elif kind == 'pow':
            _known_pf21(sub)
        else:
            _check_from_float(sub, sub.n(1500, 30000))
    return not ctx.violations
