"""C08 — waveforms honour their contract (constants, optimising constructors, subsets, reversal,
equality, pointwise and history-independent sampling).

Correspondence: a *recipe* (tree of constructor calls) is executed on the real qupulse classes and on
the Lean model `QP.C08` (`evalRecipe`); channels, duration, constant values, error classes and the
samples on a grid containing every breakpoint are compared.  The judge (`judge-const`, `judge-same`,
`judge-total`: the executable specs of QP/Model/C08.lean) is applied to the *implementation's* numbers.
Call histories (fresh / reused / sliced / mutated time arrays, output arrays, interleaved channels) are
run on the implementation only and compared with a first call on a pristine object.
"""
from __future__ import annotations

import contextlib
import fractions
import io
import json
import math
import random
import warnings

import core
from core import sx, as_frac

F = fractions.Fraction
POOL = ['A', 'B', 'C', 'D', 'a', 'b', 'AA', 'Ab', 'Z']
VALS = [F(0), F(1), F(-1), F(1, 2), F(2), F(-3, 2), F(3), F(1, 4)]
DURS = [F(1, 4), F(1, 2), F(1), F(3, 2), F(2), F(3), F(4)]
Q = F(1, 4)


# ---------------------------------------------------------------------------------------------
# building recipes on the real classes
# ---------------------------------------------------------------------------------------------

_IMP = {}
_DEVNULL = io.StringIO()


def imp():
    if not _IMP:
        import numpy as np
        from qupulse.program import waveforms as W
        from qupulse.program import transformation as T
        from qupulse.pulses import interpolation as I
        from qupulse.expressions import ExpressionScalar
        from qupulse.utils.types import TimeType
        _IMP.update(np=np, W=W, T=T, I=I, Expr=ExpressionScalar, TimeType=TimeType,
                    interp={'hold': I.HoldInterpolationStrategy(), 'jump': I.JumpInterpolationStrategy(),
                            'linear': I.LinearInterpolationStrategy()},
                    fn={'neg': np.negative, 'pos': np.positive, 'abs': np.absolute},
                    exprs={})
    return _IMP


_ALT = [False]


def fl(x):
    """the float handed to qupulse; in `alt` mode integral numbers travel as python ints (equal values of a
    different numeric type: the built waveforms must compare and hash equal)"""
    x = F(x)
    if _ALT[0] and x.denominator == 1:
        return int(x)
    return float(x)


def tt(x):
    x = F(x)
    return imp()['TimeType'].from_fraction(x.numerator, x.denominator)


def expr(slope, icpt):
    m = imp()
    key = (F(slope), F(icpt))
    if key not in m['exprs']:
        if key[0] == 0:
            e = m["Expr"](repr(float(F(icpt))))
        elif key == (1, 0):
            e = m["Expr"]('t')              # the bare time variable: evaluation returns the time array itself
        elif key[1] == 0:
            e = m["Expr"]("%r*t" % float(F(slope)))
        else:
            e = m["Expr"]("%r*t + %r" % (float(F(slope)), float(F(icpt))))
        m['exprs'][key] = e
    return m['exprs'][key]


def tv_value(tv):
    if tv[0] == 'num':
        return fl(tv[1])
    return expr(tv[1], tv[2])


def build_trafo(t):
    m = imp()
    T = m['T']
    k = t[0]
    if k == 'identity':
        return T.IdentityTransformation()
    if k == 'offset':
        return T.OffsetTransformation({c: tv_value(v) for c, v in t[1]})
    if k == 'scaling':
        return T.ScalingTransformation({c: tv_value(v) for c, v in t[1]})
    if k == 'parallel':
        return T.ParallelChannelTransformation({c: tv_value(v) for c, v in t[1]})
    if k == 'linear':
        integral = _ALT[0] and all(F(x).denominator == 1 for row in t[1] for x in row)
        mat = m['np'].array([[fl(x) for x in row] for row in t[1]],
                            dtype=int if integral else float).reshape(len(t[3]), len(t[2]))
        return T.LinearTransformation(mat, list(t[2]), list(t[3]))
    if k == 'chain':
        return T.chain_transformations(*[build_trafo(x) for x in t[1:]])
    if k == 'chain-plain':
        return T.ChainedTransformation(*[build_trafo(x) for x in t[1:]])
    raise core.MachineryError('unknown trafo recipe %r' % (t,))


def entries(es):
    m = imp()
    return [m['W'].TableWaveformEntry(fl(t), fl(v), m['interp'][i]) for t, v, i in es]


def build(r, alt=False):
    """Execute a recipe on the real classes (children first, left to right)."""
    _ALT[0] = alt
    try:
        with contextlib.redirect_stdout(_DEVNULL):      # SequenceWaveform prints before it raises
            return _build(r)
    finally:
        _ALT[0] = False


def _build(r):
    m = imp()
    W = m['W']
    k = r[0]
    if k == 'table':
        if r[1] == 0:
            return W.TableWaveform(r[2], tuple(entries(r[3])))
        return W.TableWaveform.from_table(r[2], entries(r[3]))
    if k == 'const':
        return W.ConstantWaveform(tt(r[1]), fl(r[2]), r[3])
    if k == 'func':
        if r[1] == 0:
            return W.FunctionWaveform(expr(r[2], r[3]), tt(r[4]), r[5])
        return W.FunctionWaveform.from_expression(expr(r[2], r[3]), tt(r[4]), r[5])
    if k == 'seq':
        ws = [_build(c) for c in r[2:]]
        return W.SequenceWaveform(ws) if r[1] == 0 else W.SequenceWaveform.from_sequence(ws)
    if k == 'multi':
        ws = [_build(c) for c in r[2:]]
        return W.MultiChannelWaveform(ws) if r[1] == 0 else W.MultiChannelWaveform.from_parallel(ws)
    if k == 'rep':
        b = _build(r[2])
        return W.RepetitionWaveform(b, r[3]) if r[1] == 0 else W.RepetitionWaveform.from_repetition_count(b, r[3])
    if k == 'trans':
        i = _build(r[2])
        t = build_trafo(r[3])
        return W.TransformingWaveform(i, t) if r[1] == 0 else W.TransformingWaveform.from_transformation(i, t)
    if k == 'arith':
        l = _build(r[2])
        rr = _build(r[4])
        op = {'plus': '+', 'minus': '-'}[r[3]]
        return W.ArithmeticWaveform(l, op, rr) if r[1] == 0 else W.ArithmeticWaveform.from_operator(l, op, rr)
    if k == 'functor':
        i = _build(r[2])
        fs = {c: m['fn'][f] for c, f in r[3]}
        return W.FunctorWaveform(i, fs) if r[1] == 0 else W.FunctorWaveform.from_functor(i, fs)
    if k == 'reversed':
        i = _build(r[2])
        if r[1] == 0:
            return W.ReversedWaveform(i)
        if r[1] == 1:
            return W.ReversedWaveform.from_to_reverse(i)
        return i.reversed()
    if k == 'subset':
        i = _build(r[2])
        chs = set(r[3])
        if r[1] == 0:
            return W.SubsetWaveform(i, chs)
        if r[1] == 1:
            return i.get_subset_for_channels(chs)
        return i.unsafe_get_subset_for_channels(chs)
    if k == 'mapping':
        return W.ConstantWaveform.from_mapping(tt(r[1]), {c: fl(v) for c, v in r[2]})
    raise core.MachineryError('unknown recipe %r' % (r,))


def from_parsed(p):
    """parsed S-expression (nested lists of str) -> recipe with Fractions / ints"""
    if isinstance(p, list):
        if len(p) == 3 and p[0] == 'q':
            return F(int(p[1]), int(p[2]))
        return [from_parsed(x) for x in p]
    try:
        return int(p)
    except ValueError:
        return p


def recipe_of_line(s):
    return from_parsed(core.parse_sx(s))


# ---------------------------------------------------------------------------------------------
# breakpoints and grids
# ---------------------------------------------------------------------------------------------

def bps(r):
    """(duration, breakpoints) of a recipe, for grid construction only"""
    k = r[0]
    if k == 'table':
        ts = [F(e[0]) for e in r[3]]
        return (ts[-1] if ts else F(0)), set(ts)
    if k == 'const':
        return F(r[1]), {F(0), F(r[1])}
    if k == 'func':
        return F(r[4]), {F(0), F(r[4])}
    if k == 'mapping':
        return F(r[1]), {F(0), F(r[1])}
    if k == 'seq':
        t = F(0)
        out = {F(0)}
        for c in r[2:]:
            d, b = bps(c)
            out |= {t + x for x in b}
            t += d
        out.add(t)
        return t, out
    if k == 'multi':
        out = set()
        d0 = None
        for c in r[2:]:
            d, b = bps(c)
            d0 = d if d0 is None else d0
            out |= b
        return (d0 or F(0)), out
    if k == 'rep':
        d, b = bps(r[2])
        n = max(int(r[3]), 0)
        out = set()
        for i in range(min(n, 16)):
            out |= {i * d + x for x in b}
        out.add(d * n)
        return d * n, out
    if k in ('trans', 'functor', 'subset'):
        return bps(r[2])
    if k == 'arith':
        d, b = bps(r[2])
        d2, b2 = bps(r[4])
        return d, b | b2
    if k == 'reversed':
        d, b = bps(r[2])
        return d, {d - x for x in b}
    return F(0), {F(0)}


def make_grid(r, rng, extra=4, cap=40):
    try:
        d, b = bps(r)
    except Exception:  # malformed recipes
        return [F(0)]
    if d <= 0:
        return [F(0)]
    pts = {x for x in b if 0 <= x <= d} | {F(0), d}
    for x in list(pts):
        for e in (F(1, 16), F(-1, 16)):
            if 0 <= x + e <= d:
                pts.add(x + e)
    for _ in range(extra):
        pts.add(F(rng.randrange(0, int(d * 32) + 1), 32))
    if len(pts) > cap:
        keep = {F(0), d}
        rest = sorted(pts - keep)
        rng.shuffle(rest)
        pts = keep | set(rest[:cap - 2])
    pts |= {d - x for x in pts}
    return sorted(pts)


# ---------------------------------------------------------------------------------------------
# generators
# ---------------------------------------------------------------------------------------------

def flag(rng):
    return rng.randrange(2)


def split_dur(rng, dur, k):
    """k positive multiples of 1/4 adding up to dur (needs dur >= k/4)"""
    n = int(dur / Q)
    cuts = sorted(rng.sample(range(1, n), k - 1)) if k > 1 else []
    parts = [b - a for a, b in zip([0] + cuts, cuts + [n])]
    return [p * Q for p in parts]


def pow2_parts(rng, dur):
    """dur (multiple of 1/4) as a list of powers of two, randomly refined"""
    n = int(dur / Q)
    parts = []
    p = 1
    while n:
        if n & 1:
            parts.append(p)
        n >>= 1
        p <<= 1
    for _ in range(rng.randrange(3)):
        big = [x for x in parts if x > 1]
        if not big:
            break
        x = rng.choice(big)
        parts.remove(x)
        parts += [x // 2, x // 2]
    rng.shuffle(parts)
    return [x * Q for x in parts]


def gen_table(rng, ch, dur, vals=VALS):
    t = F(0)
    v = rng.choice(vals)
    es = [[t, v, rng.choice(['hold', 'jump', 'linear'])]]
    for p in pow2_parts(rng, dur):
        # optional discontinuity (zero-length segments, possibly several)
        for _ in range(rng.choice([0, 0, 0, 1, 1, 2])):
            v = rng.choice(vals) if rng.random() < 0.7 else v
            es.append([t, v, rng.choice(['hold', 'jump', 'linear'])])
        t += p
        v = rng.choice(vals) if rng.random() < 0.65 else v
        es.append([t, v, rng.choice(['hold', 'jump', 'linear'])])
    for _ in range(rng.choice([0, 0, 0, 0, 1, 2])):
        v = rng.choice(vals) if rng.random() < 0.7 else v
        es.append([t, v, rng.choice(['hold', 'jump', 'linear'])])
    return ['table', flag(rng), ch, es]


def gen_leaf(rng, ch, dur, p_const=0.35, vals=VALS):
    x = rng.random()
    if dur == 0 or x < p_const:
        return ['const', dur, rng.choice(vals), ch]
    if x < p_const + 0.2:
        if rng.random() < 0.3:
            return ['func', flag(rng), F(1), F(0), dur, ch]        # exactly `t`
        slope = rng.choice([F(1), F(-1), F(1, 2), F(2), F(0), F(-1, 2)])
        return ['func', flag(rng), slope, rng.choice(vals + [F(0), F(0)]), dur, ch]
    if rng.random() < 0.25:
        # tables over a two-valued alphabet: constant detection and de-duplication trigger often
        two = rng.sample(vals, 2)
        return gen_table(rng, ch, dur, [two[0], two[0], two[1]])
    return gen_table(rng, ch, dur, vals)


def gen_tv(rng):
    if rng.random() < 0.8:
        return ['num', rng.choice([F(0), F(1), F(-1), F(1, 2), F(2), F(-2)])]
    return ['expr', rng.choice([F(1), F(-1), F(1, 2)]), rng.choice([F(0), F(1), F(-1, 2)])]


def gen_atom(rng, out, forbidden=()):
    """one transformation atom producing the channels `out`; returns (atom, required inner channels).
    `forbidden`: input channels of linear atoms applied later in the same chain; they must not be produced here
    (open finding PF-C08d: a LinearTransformation that sees only part of its inputs raises KeyError)."""
    out = list(out)
    k = rng.choice(['identity', 'offset', 'scaling', 'linear', 'linear', 'parallel', 'parallel'])
    free = [c for c in out if c not in forbidden]
    if not free and k in ('linear', 'parallel'):
        k = 'scaling'
    if k == 'identity':
        return ['identity'], out
    if k in ('offset', 'scaling'):
        keys = [c for c in out if rng.random() < 0.7]
        if rng.random() < 0.2:
            keys.append(rng.choice([c for c in POOL if c not in out]))      # a key that is not a channel
        rng.shuffle(keys)
        return [k, [[c, gen_tv(rng)] for c in keys]], out
    if k == 'parallel':
        keys = [c for c in free if rng.random() < 0.5] or [rng.choice(free)]
        inner = [c for c in out if c not in keys] + [c for c in keys if rng.random() < 0.4]
        if not inner:
            inner = [rng.choice([c for c in POOL if c not in out])]
            if rng.random() < 0.5:
                # the fresh inner channel stays visible: not producible with exactly `out`; overwrite it too
                keys = keys + inner
        inner_only = [c for c in inner if c not in out and c not in keys]
        if inner_only:
            keys = keys + inner_only
        rng.shuffle(keys)
        return ['parallel', [[c, gen_tv(rng)] for c in keys]], sorted(set(inner))
    # linear
    outs = [c for c in free if rng.random() < 0.6] or [rng.choice(free)]
    fwd = [c for c in out if c not in outs]
    cand = [c for c in POOL if c not in fwd]
    ins = rng.sample(cand, rng.choice([1, 1, 2, 2, 3]) if len(cand) >= 3 else 1)
    rng.shuffle(outs)
    mat = [[rng.choice([F(0), F(1), F(-1), F(1, 2), F(2)]) for _ in ins] for _ in outs]
    return ['linear', mat, ins, outs], sorted(set(fwd) | set(ins))


def gen_trafo(rng, out):
    if rng.random() < 0.6:
        return gen_atom(rng, out)
    n = rng.choice([2, 2, 3])
    atoms = []
    need = list(out)
    forbidden = set()
    for _ in range(n):
        a, need = gen_atom(rng, need, forbidden)
        if a[0] == 'linear':
            forbidden |= set(a[2])
        atoms.insert(0, a)
    head = 'chain' if rng.random() < 0.6 else 'chain-plain'
    return [head] + atoms, need


def partition(rng, chans, k):
    chans = list(chans)
    rng.shuffle(chans)
    groups = [[c] for c in chans[:k]]
    for c in chans[k:]:
        rng.choice(groups).append(c)
    return [sorted(g) for g in groups]


def const_tree(rng, chans, dur, vals):
    """a waveform on `chans` all of whose channels are reported constant (values given)"""
    if len(chans) == 1:
        return ['const', dur, vals[chans[0]], chans[0]]
    if rng.random() < 0.4:
        return ['mapping', dur, [[c, vals[c]] for c in chans]]
    order = list(chans)
    rng.shuffle(order)
    return ['multi', flag(rng)] + [['const', dur, vals[c], c] for c in order]


def ramps(rng, chans, dur):
    """function waveforms (mostly the bare `t`) on every channel: the operand FunctorWaveform / ArithmeticWaveform
    modify in place"""
    def one(c):
        if rng.random() < 0.7:
            return ['func', flag(rng), F(1), F(0), dur, c]
        return ['func', flag(rng), rng.choice([F(1), F(2), F(-1)]), rng.choice([F(0), F(1)]), dur, c]
    chans = list(chans)
    if len(chans) == 1:
        return one(chans[0])
    rng.shuffle(chans)
    return ['multi', flag(rng)] + [one(c) for c in chans]


def gen(rng, depth, chans, dur, p_const=0.35, force=None):
    chans = sorted(chans)
    n = len(chans)
    if dur == 0:
        if n == 1:
            return ['const', F(0), rng.choice(VALS), chans[0]]
        return ['multi', flag(rng)] + [['const', F(0), rng.choice(VALS), c] for c in chans]
    if force is None and (depth <= 0 or rng.random() < 0.12):
        if n == 1:
            return gen_leaf(rng, chans[0], dur, p_const)
        if rng.random() < 0.15:
            return ['mapping', dur, [[c, rng.choice(VALS)] for c in chans]]
        order = list(chans)
        rng.shuffle(order)
        return ['multi', flag(rng)] + [gen_leaf(rng, c, dur, p_const) for c in order]
    kinds = ['seq', 'seq', 'rep', 'trans', 'trans', 'subset', 'arith', 'functor', 'reversed']
    if n >= 2:
        kinds += ['multi', 'multi']
    k = force or rng.choice(kinds)
    d1 = depth - 1 - (1 if rng.random() < 0.3 else 0)
    if k == 'seq':
        kmax = min(3, int(dur / Q))
        cnt = rng.randint(1, kmax) if rng.random() < 0.1 else rng.randint(min(2, kmax), kmax)
        durs = split_dur(rng, dur, cnt)
        if rng.random() < 0.08:
            durs.insert(rng.randrange(len(durs) + 1), F(0))
        x = rng.random()
        if x < 0.25:
            vals = {c: rng.choice(VALS) for c in chans}
            kids = [const_tree(rng, chans, d, vals) for d in durs]
            if rng.random() < 0.4:          # near miss: one channel of one piece differs
                i = rng.randrange(len(kids))
                v2 = dict(vals)
                c = rng.choice(chans)
                v2[c] = vals[c] + 1
                kids[i] = const_tree(rng, chans, durs[i], v2)
        else:
            kids = [gen(rng, d1, chans, d, p_const) for d in durs]
        return ['seq', flag(rng)] + kids
    if k == 'rep':
        units = int(dur / Q)
        cands = [c for c in (1, 2, 3, 4) if units % c == 0]
        cnt = rng.choice(cands)
        pc = 0.7 if rng.random() < 0.3 else p_const
        return ['rep', flag(rng), gen(rng, d1, chans, dur / cnt, pc), cnt]
    if k == 'multi':
        groups = partition(rng, chans, rng.randint(2, min(3, n)))
        return ['multi', flag(rng)] + [gen(rng, d1, g, dur, p_const) for g in groups]
    if k == 'trans':
        t, inner = gen_trafo(rng, chans)
        pc = 0.8 if rng.random() < 0.4 else p_const
        return ['trans', flag(rng), gen(rng, d1, inner, dur, pc), t]
    if k == 'subset':
        free = [c for c in POOL if c not in chans]
        extra = rng.sample(free, rng.choice([1, 1, 2]))
        return ['subset', rng.randrange(3), gen(rng, d1, chans + extra, dur, p_const), list(chans)]
    if k == 'arith':
        while True:
            side = {c: rng.choice('LRB') for c in chans}
            L = [c for c in chans if side[c] in 'LB']
            R = [c for c in chans if side[c] in 'RB']
            if L and R:
                break
        pc = 0.8 if rng.random() < 0.35 else p_const
        lhs = ramps(rng, L, dur) if rng.random() < 0.2 else gen(rng, d1, L, dur, pc)
        return ['arith', flag(rng), lhs, rng.choice(['plus', 'minus']), gen(rng, d1, R, dur, pc)]
    if k == 'functor':
        fs = [[c, rng.choice(['neg', 'pos', 'abs'])] for c in chans]
        rng.shuffle(fs)
        pc = 0.8 if rng.random() < 0.35 else p_const
        inner = ramps(rng, chans, dur) if rng.random() < 0.2 else gen(rng, d1, chans, dur, pc)
        return ['functor', flag(rng), inner, fs]
    if k == 'reversed':
        pc = 0.8 if rng.random() < 0.2 else p_const
        return ['reversed', rng.randrange(3), gen(rng, d1, chans, dur, pc)]
    if k == 'leaf':
        return gen_leaf(rng, chans[0], dur, p_const)
    raise core.MachineryError(k)


def gen_top(rng, depth):
    n = rng.choice([1, 1, 2, 2, 3])
    chans = rng.sample(POOL, n)
    dur = rng.choice(DURS)
    return gen(rng, depth, chans, dur)


def node_kinds(r, out):
    out[r[0]] = out.get(r[0], 0) + 1
    for c in r[1:]:
        if isinstance(c, list) and c and isinstance(c[0], str) and c[0] in (
                'table', 'const', 'func', 'seq', 'multi', 'rep', 'trans', 'arith', 'functor', 'reversed',
                'subset', 'mapping'):
            node_kinds(c, out)
    return out


def depth_of(r):
    kids = [c for c in r[1:] if isinstance(c, list) and c and isinstance(c[0], str) and c[0] in (
        'table', 'const', 'func', 'seq', 'multi', 'rep', 'trans', 'arith', 'functor', 'reversed', 'subset',
        'mapping')]
    return 1 + max([depth_of(c) for c in kids], default=0)


# ---------------------------------------------------------------------------------------------
# observing the implementation
# ---------------------------------------------------------------------------------------------

def val(x):
    """float -> Fraction | None (NaN / inf)"""
    x = float(x)
    if not math.isfinite(x):
        return None
    return F(x)


def vals_sx(vs):
    return [v if v is not None else 'nan' for v in vs]


def observe(r, grid):
    """Build the recipe and observe it with fresh arrays on a pristine object per channel."""
    np = imp()['np']
    try:
        w = build(r)
    except Exception as e:  # noqa
        return {'error': core.classify_exception(e), 'phase': 'build', 'msg': str(e)[:200]}
    try:
        chans = sorted(w.defined_channels)
        dur = F(int(w.duration.numerator), int(w.duration.denominator))
        cv = {}
        for c in chans:
            x = w.constant_value(c)
            cv[c] = None if x is None else val(x)
        d = w.constant_value_dict()
        cvd = None if d is None else sorted((c, val(v)) for c, v in d.items())
        samples = {}
        t = np.array([fl(x) for x in grid], dtype=float)
        for c in chans:
            fresh = build(r)
            samples[c] = [val(x) for x in fresh.unsafe_sample(c, t.copy())]
        return {'obj': w, 'chans': chans, 'dur': dur, 'cv': cv, 'cvd': cvd, 'samples': samples}
    except Exception as e:  # noqa
        return {'error': core.classify_exception(e), 'phase': 'observe', 'msg': '%s: %s' % (type(e).__name__, str(e)[:200])}


def parse_model(ans):
    """answer of `(c08 case …)`"""
    if ans[0] == 'error':
        return {'error': ans[1]}
    if ans[0] != 'ok':
        raise core.MachineryError('driver: %r' % (ans,))
    out = {'shape': ans[1]}
    for part in ans[2:]:
        tag = part[0]
        if tag == 'chans':
            out['chans'] = list(part[1:])
        elif tag == 'dur':
            out['dur'] = as_frac(part[1])
        elif tag == 'wf':
            out['wf'] = part[1] == 'true'
        elif tag == 'cv':
            out['cv'] = {c: (None if v == 'none' else as_frac(v)) for c, v in part[1:]}
        elif tag == 'cvd':
            out['cvd'] = None if part[1] == 'none' else sorted((c, as_frac(v)) for c, v in part[1])
        elif tag == 'samples':
            out['samples'] = {p[0]: [None if v == 'nan' else as_frac(v) for v in p[1:]] for p in part[1:]}
    return out


def diff_obs(impl, model):
    """names of the observables on which implementation and model differ"""
    if 'error' in impl or 'error' in model:
        if 'error' in impl and 'error' in model:
            return [] if impl['error'] == model['error'] else ['error-class']
        return ['error']
    return [k for k in ('chans', 'dur', 'cv', 'cvd', 'samples') if impl[k] != model[k]]


# ---------------------------------------------------------------------------------------------
# one batch of questions to the Lean driver
# ---------------------------------------------------------------------------------------------

class Batch:
    def __init__(self):
        self.lines = []
        self.handlers = []

    def ask(self, line, handler):
        self.lines.append(line)
        self.handlers.append(handler)

    def run(self):
        answers = core.Lean.run(self.lines)
        for h, a in zip(self.handlers, answers):
            h(a)
        self.lines, self.handlers = [], []


class Group:
    """everything checked around one recipe; collects differences and judge verdicts"""

    def __init__(self, ctx, recipe, subseed, label):
        self.ctx = ctx
        self.recipe = recipe
        self.subseed = subseed
        self.label = label
        self.line = sx(recipe)
        self.diffs = []          # (what, case line, impl, model)
        self.reported = set()
        self.cap = 2
        self.violated = False

    def replay(self, **kw):
        d = {'kind': 'decimal' if self.label.startswith('decimal') or self.label.endswith('decimal') else 'group',
             'recipe': self.line, 'subseed': self.subseed, 'label': self.label}
        d.update(kw)
        return d

    def violation(self, what, **kw):
        self.violated = True
        cat = what.split(':')[0]
        self.ctx.count('violations:' + cat)
        if self.classify(what, kw):
            return True
        # one input usually violates several clauses at once: report two of them, count the rest
        if cat in self.reported or len(self.reported) >= self.cap:
            return
        self.reported.add(cat)
        self.ctx.violation('%s  [recipe %s]' % (what, self.line[:300]), self.replay(**kw))

    def classify(self, what, kw):
        """known open findings: only violations inside a recorded class are suppressed"""
        for kf in self.ctx.findings.for_property('C08'):
            pred = KNOWN_CLASSES.get(kf.get('finding'))
            if pred and pred(self, what, kw):
                self.ctx.known_finding(kf['finding'], kf.get('what', what))
                self.ctx.count('known:' + kf['finding'])
                return True
        return False


def judge(B, g, kind, args, what, **kw):
    """ask the Lean judge about implementation numbers; a `violates` verdict is a violation of the property"""
    line = sx(['c08', kind] + args)

    def h(ans):
        g.ctx.count('judge:' + kind)
        if ans != 'ok':
            if not (isinstance(ans, list) and ans and ans[0] == 'violates'):
                raise core.MachineryError('judge answered %r for %s' % (ans, line[:200]))
            g.violation('%s: %s at index %s' % (what, ans[1], ans[2]), judge_line=line[:2000], **kw)
    B.ask(line, h)


def flat(samples, chans):
    out = []
    for c in chans:
        out += samples[c]
    return out


def run_case(B, g, r, grid, role, total=True):
    """observe one recipe on the implementation, ask the model, attach the per-case judges"""
    ctx = g.ctx
    impl = observe(r, grid)
    line = sx(['c08', 'case', r, grid])
    res = {'recipe': r, 'impl': impl, 'line': line, 'model': None, 'role': role}
    ctx.case(line, nontrivial='error' not in impl and len(line) > 60)
    ctx.count('cases:' + role)
    if 'error' in impl:
        ctx.count('impl-error:%s:%s' % (impl['phase'], impl['error']))

    def h(ans):
        model = parse_model(ans)
        res['model'] = model
        d = diff_obs(impl, model)
        if 'error' in impl and impl['phase'] == 'observe' and 'error' not in model and not model.get('wf'):
            ctx.count('not-well-formed:raises-on-use')      # outside the theorems: the model claims nothing
        elif 'error' in impl and impl['phase'] == 'observe' and 'error' not in model and model.get('wf'):
            g.violation('not-total: sampling / constant_value / defined_channels raised %s on a well-formed waveform (%s)'
                        % (impl['error'], impl['msg']), case=line[:3000])
        elif d:
            g.diffs.append((','.join(d), line, _short(impl), _short(model)))
        if 'error' not in impl and 'error' not in model:
            if model['shape'] is not None:
                ctx.count('structural:compared')
    B.ask(line, h)
    if 'error' not in impl:
        if total:
            res['needs_total'] = True
        for c in impl['chans']:
            if impl['cv'][c] is not None:
                ctx.count('constant-reported')
                judge(B, g, 'judge-const', [impl['cv'][c], vals_sx(impl['samples'][c])],
                      'constant: constant_value(%r) = %s (%s)' % (c, impl['cv'][c], role), case=line[:3000])
        if impl['cvd'] is not None:
            for c, v in impl['cvd']:
                if c in impl['samples']:
                    judge(B, g, 'judge-const', [v, vals_sx(impl['samples'][c])],
                          'constant: constant_value_dict()[%r] = %s (%s)' % (c, v, role), case=line[:3000])
            if sorted(c for c, _ in impl['cvd']) != impl['chans']:
                g.violation('constant: constant_value_dict() keys %r differ from defined_channels %r'
                            % ([c for c, _ in impl['cvd']], impl['chans']), case=line[:3000])
    return res


def _short(o):
    if 'error' in o:
        return {k: o[k] for k in ('error', 'phase', 'msg') if k in o}
    return {k: (str(o[k])[:400]) for k in ('chans', 'dur', 'cv', 'cvd', 'samples', 'wf') if k in o}


def total_judges(B, g, results):
    """second batch: finiteness is demanded of well-formed waveforms only (the model decides well-formedness);
    the pointwise semantics `QP.C08.Wf.sample` is the oracle for the value at a time (DESIGN 4, table row C08)"""
    for res in results:
        impl, model = res['impl'], res['model']
        if model is not None and 'error' not in impl and 'error' not in model and model.get('wf') \
                and impl['chans'] == model['chans'] and impl['samples'] != model['samples']:
            judge(B, g, 'judge-same', [vals_sx(flat(impl['samples'], impl['chans'])),
                                       vals_sx(flat(model['samples'], model['chans']))],
                  'pointwise: unsafe_sample differs from the pointwise semantics of the waveform (%s)' % res['role'],
                  case=res['line'][:3000])
        if res.get('needs_total') and res['model'] is not None and res['model'].get('wf'):
            impl = res['impl']
            judge(B, g, 'judge-total', [vals_sx(flat(impl['samples'], impl['chans']))],
                  'not-total: a sample in [0, duration] is not finite (%s)' % res['role'], case=res['line'][:3000])


# ---------------------------------------------------------------------------------------------
# call histories (implementation only)
# ---------------------------------------------------------------------------------------------

def history(g, r, base, grid, rng, steps=9):
    """Sample one object repeatedly in different ways.  Reference: the first call on a pristine object."""
    ctx = g.ctx
    np = imp()['np']
    impl = base['impl']
    if 'error' in impl or not grid:
        return
    chans = impl['chans']
    ref = {c: dict(zip(grid, impl['samples'][c])) for c in chans}
    w = build(r)
    n = len(grid)
    # the value at a time must not depend on how the time array is represented: integer and float32 arrays holding
    # the same times as the float64 reference
    ints = [x for x in grid if F(x).denominator == 1]
    for c in chans:
        for dtype, times in (('int64', ints), ('int32', ints), ('float32', grid)):
            if not times or (dtype == 'int32' and rng.random() < 0.5):
                continue
            t = np.array([fl(x) for x in times]).astype(dtype)
            snap = t.copy()
            how = rng.choice(['get_sampled', 'unsafe_sample'])
            try:
                res = getattr(build(r) if rng.random() < 0.5 else w, how)(c, t)
            except Exception as e:  # noqa
                if g.violation('history: %s with a %s time array raised %s: %s'
                               % (how, dtype, type(e).__name__, str(e)[:120]), dtype=dtype, exc=type(e).__name__,
                               grid=[str(x) for x in grid]):
                    continue            # inside the class of a known finding: go on with the other representations
                return
            ctx.count('history:dtype-' + dtype)
            got = [val(x) for x in res]
            want = [ref[c][x] for x in times]
            if got != want:
                g.violation('history: %s(%r) with a %s time array returned %s, with the same times as float64 %s'
                            % (how, c, dtype, _fmt(got), _fmt(want)), dtype=dtype, grid=[str(x) for x in grid])
                return
            if not np.array_equal(t, snap):
                g.violation('history: %s(%r) modified the caller\'s %s sample time array' % (how, c, dtype),
                            grid=[str(x) for x in grid])
                return
    k = max(1, n // 2)
    g1 = sorted(rng.sample(grid, k))
    g2 = sorted(rng.sample(grid, k))
    T = np.array([fl(x) for x in g1])
    Ttimes = list(g1)
    outs = []
    earlier = []       # (array, snapshot, description)
    log = []
    for step in range(steps):
        c = rng.choice(chans)
        op = rng.choice(['fresh', 'same', 'same', 'slice', 'out', 'out-reuse', 'mutate', 'unsafe', 'unsafe-out',
                         'empty'])
        try:
            if op == 'mutate':
                T[:] = [fl(x) for x in g2]
                Ttimes = list(g2)
                g2 = sorted(rng.sample(grid, k))
                log.append('mutate T in place')
                op = 'same'
            if op == 'fresh':
                if rng.random() < 0.3:      # monotone, not strictly: repeated times
                    times = sorted(rng.choices(grid, k=rng.randint(1, n)))
                else:
                    times = sorted(rng.sample(grid, rng.randint(1, n)))
                t = np.array([fl(x) for x in times])
                res = w.get_sampled(c, t)
            elif op == 'same':
                times, t = list(Ttimes), T
                res = w.get_sampled(c, t)
            elif op == 'slice':
                a = rng.randrange(0, k)
                b = rng.randrange(a, k + 1)
                st = rng.choice([1, 1, 2])
                times, t = Ttimes[a:b:st], T[a:b:st]
                res = w.get_sampled(c, t)
            elif op == 'empty':
                times, t = [], T[0:0]
                res = w.get_sampled(c, t)
            elif op in ('out', 'unsafe-out'):
                times = sorted(rng.sample(grid, rng.randint(1, n)))
                t = np.array([fl(x) for x in times])
                out = np.full(len(times), 12345.0)
                outs.append(out)
                res = (w.get_sampled if op == 'out' else w.unsafe_sample)(c, t, output_array=out)
                if res is not out:
                    g.violation('history: the supplied output_array is not the returned array (%s)' % op,
                                history=log + [op])
            elif op == 'out-reuse':
                if not outs:
                    continue
                out = rng.choice(outs)
                if len(out) > n:
                    continue
                times = sorted(rng.sample(grid, len(out)))
                t = np.array([fl(x) for x in times])
                earlier = [e for e in earlier if e[0] is not out]
                res = w.get_sampled(c, t, output_array=out)
            else:  # unsafe
                times, t = list(Ttimes), T
                res = w.unsafe_sample(c, t)
            log.append('%s ch=%s n=%d' % (op, c, len(times)))
            ctx.count('history:' + op)
        except Exception as e:  # noqa
            log.append('%s ch=%s raised %s' % (op, c, type(e).__name__))
            g.violation('history: call %d (%s) raised %s: %s' % (step, op, type(e).__name__, str(e)[:120]),
                        history=log, grid=[str(x) for x in grid])
            return
        if [val(x) for x in t] != list(times):
            g.violation('history: call %d (%s, channel %r) modified the caller\'s sample time array: %s instead of %s'
                        % (step, op, c, _fmt([val(x) for x in t]), _fmt(list(times))), history=log,
                        grid=[str(x) for x in grid])
            return
        got = [val(x) for x in res]
        want = [ref[c][x] for x in times]
        if got != want:
            g.violation('history: call %d (%s, channel %r) returned %s, a first call on a fresh object returns %s'
                        % (step, op, c, _fmt(got), _fmt(want)), history=log, grid=[str(x) for x in grid])
            return
        for arr, snap, desc in earlier:
            if not np.array_equal(arr, snap, equal_nan=True):
                g.violation('history: the result of an earlier call (%s) changed after call %d (%s)' % (desc, step, op),
                            history=log, grid=[str(x) for x in grid])
                return
        earlier.append((res, np.array(res, copy=True), '%d:%s' % (step, op)))


def _fmt(vs):
    return '[' + ' '.join('nan' if v is None else str(v) for v in vs[:12]) + (' …' if len(vs) > 12 else '') + ']'


# ---------------------------------------------------------------------------------------------
# equality and hashes
# ---------------------------------------------------------------------------------------------

LEAFY = ('table', 'const', 'func', 'mapping')


def mutate_recipe(rng, r):
    """a near miss: one parameter of one node changed (deep copy)"""
    r = json.loads(json.dumps(r, default=lambda f: {'__q': [f.numerator, f.denominator]}),
                   object_hook=lambda d: F(*d['__q']) if '__q' in d else d)
    nodes = []

    def walk(x):
        nodes.append(x)
        for c in x[1:]:
            if isinstance(c, list) and c and isinstance(c[0], str) and c[0] in (
                    'table', 'const', 'func', 'seq', 'multi', 'rep', 'trans', 'arith', 'functor', 'reversed',
                    'subset', 'mapping'):
                walk(c)
    walk(r)
    x = rng.choice(nodes)
    k = x[0]
    if k == 'const':
        if rng.random() < 0.5:
            x[2] = x[2] + 1
        else:
            x[1] = x[1] + Q
    elif k == 'func':
        x[rng.choice([2, 3])] += F(1, 2)
    elif k == 'table':
        e = rng.choice(x[3])
        if rng.random() < 0.5:
            e[1] = e[1] + 1
        else:
            e[2] = {'hold': 'jump', 'jump': 'linear', 'linear': 'hold'}[e[2]]
    elif k == 'rep':
        x[3] = x[3] + 1
    elif k == 'arith':
        x[3] = 'minus' if x[3] == 'plus' else 'plus'
    elif k == 'functor':
        f = rng.choice(x[3])
        f[1] = {'neg': 'pos', 'pos': 'abs', 'abs': 'neg'}[f[1]]
    elif k == 'mapping':
        x[2][0][1] = x[2][0][1] + 1
    elif k == 'seq' and len(x) > 3:
        x[2], x[3] = x[3], x[2]
    elif k == 'trans':
        x[3] = ['chain-plain', x[3]] if x[3][0] not in ('chain', 'chain-plain') else x[3] + [['scaling', [['A', ['num', F(2)]]]]]
    elif k == 'reversed':
        x[1] = (x[1] + 1) % 3
    else:
        return None
    return r


def eq_hash(B, g, r, base, grid, rng):
    ctx = g.ctx
    try:
        a, b = build(r), build(r, alt=rng.random() < 0.5)
    except Exception:  # noqa
        return
    ctx.count('eq:same-recipe')
    try:
        same = (a == b) is True
        ha, hb = hash(a), hash(b)
    except Exception as e:  # noqa
        g.violation('equality: == / hash raised %s: %s' % (type(e).__name__, str(e)[:100]))
        return
    if not same:
        g.diffs.append(('eq', g.line, 'two objects built from the same recipe compare unequal', 'equal'))
    elif ha != hb:
        g.violation('equality: two waveforms compare equal but their hashes differ')
    near_miss(B, g, r, a, ha, base, grid, mutate_recipe(rng, r), 'near-miss')
    # otherwise identical waveforms whose durations differ by a tiny relative amount (2^-31 … 2^-46)
    near_miss(B, g, r, a, ha, base, grid, dur_near_miss(rng, r), 'duration-near-miss')


def _copy_recipe(r):
    return json.loads(json.dumps(r, default=lambda f: {'__q': [f.numerator, f.denominator]}),
                      object_hook=lambda d: F(*d['__q']) if '__q' in d else d)


def dur_near_miss(rng, r):
    """the same recipe with the duration of one constant / function leaf multiplied by 1 + 2^-k"""
    r = _copy_recipe(r)
    leaves = []

    def walk(x):
        if x[0] in ('const', 'mapping') and F(x[1]) > 0:
            leaves.append((x, 1))
        elif x[0] == 'func' and F(x[4]) > 0:
            leaves.append((x, 4))
        for c in x[1:]:
            if isinstance(c, list) and c and isinstance(c[0], str) and c[0] in KIND_SET:
                walk(c)
    walk(r)
    if not leaves:
        return None
    x, i = rng.choice(leaves)
    x[i] = F(x[i]) * (1 + F(1, 2 ** rng.randint(31, 46)))
    return r


def near_miss(B, g, r, a, ha, base, grid, m, kind):
    """a is built from r; m is a slightly different recipe: if the implementation calls them equal, everything
    observable has to agree (eq_congr judged on the implementation)"""
    ctx = g.ctx
    if m is None:
        return
    try:
        c = build(m)
    except Exception:  # noqa
        return
    try:
        eq = (a == c) is True
        hc = hash(c)
    except Exception as e:  # noqa
        g.violation('equality: == / hash raised %s: %s' % (type(e).__name__, str(e)[:100]), other=sx(m))
        return
    ctx.count('eq:' + kind)
    ctx.count('eq:%s-%s' % (kind, 'equal' if eq else 'unequal'))
    line = sx(['c08', 'eq', r, m])
    oc = observe(m, grid) if eq else None

    def h(ans):
        if ans not in ('true', 'false'):
            return                      # the mutated recipe is rejected by the model's constructors
        if (ans == 'true') != eq:
            g.diffs.append(('eq', line, 'impl ==: %s' % eq, 'model eqv: %s' % ans))
    B.ask(line, h)
    if eq:
        # waveforms that compare equal have equal hashes, channels, durations and samples
        if ha != hc:
            g.violation('equality: two waveforms compare equal but their hashes differ (%s)' % kind, other=sx(m))
        bi = base['impl']
        if 'error' in oc or 'error' in bi:
            return
        if oc['chans'] != bi['chans'] or oc['dur'] != bi['dur']:
            g.violation('equality: waveforms compare equal but channels / durations differ (%s): %s vs %s'
                        % (kind, oc['dur'], bi['dur']), other=sx(m))
        else:
            judge(B, g, 'judge-same', [vals_sx(flat(oc['samples'], oc['chans'])), vals_sx(flat(bi['samples'], bi['chans']))],
                  'equality: waveforms compare equal but sample differently (%s)' % kind, other=sx(m))


# ---------------------------------------------------------------------------------------------
# a group: plain vs smart, subsets, reversal, history, equality
# ---------------------------------------------------------------------------------------------

SMART_AT = {'table': 1, 'func': 1, 'seq': 1, 'multi': 1, 'rep': 1, 'trans': 1, 'arith': 1, 'functor': 1}


def with_flag(r, f):
    return [r[0], f] + list(r[2:])


def same_waveform(B, g, a, b, what, chans=None, mirror=None, grid=None, **kw):
    """judge: waveform b samples like a (on `chans`; b at t against a at mirror[t])"""
    ia, ib = a['impl'], b['impl']
    if 'error' in ia or 'error' in ib:
        return
    chans = chans if chans is not None else ia['chans']
    if chans == ia['chans'] == ib['chans'] or chans is not None:
        pass
    if sorted(ib['chans']) != sorted(chans):
        g.violation('%s: channels %r, expected %r' % (what, ib['chans'], sorted(chans)), **kw)
        return
    if ia['dur'] != ib['dur']:
        g.violation('%s: duration %s, expected %s' % (what, ib['dur'], ia['dur']), **kw)
        return
    va, vb = [], []
    for c in sorted(chans):
        sa, sb = ia['samples'][c], ib['samples'][c]
        if mirror is not None:
            idx = {t: i for i, t in enumerate(grid)}
            sa = [sa[idx[ia['dur'] - t]] for t in grid]
        va += sa
        vb += sb
    judge(B, g, 'judge-same', [vals_sx(vb), vals_sx(va)], what, **kw)


def check_group(B, ctx, recipe, subseed, label, light=False, derive=True, shared=None):
    rng = random.Random(subseed)
    g = Group(ctx, recipe, subseed, label)
    if shared is not None:          # several groups of one corpus witness: one report in total
        g.reported, g.cap = shared, 1
    grid = make_grid(recipe, rng)
    results = []
    k = recipe[0]
    ctx.count('top:' + k)
    if k in SMART_AT:
        plain = run_case(B, g, with_flag(recipe, 0), grid, 'plain')
        smart = run_case(B, g, with_flag(recipe, 1), grid, 'smart')
        results += [plain, smart]
        if 'error' not in plain['impl'] and 'error' not in smart['impl']:
            ctx.count('smart-vs-plain')
            if type(plain['impl']['obj']) is not type(smart['impl']['obj']):
                ctx.count('smart-folded')
            same_waveform(B, g, plain, smart, 'smart-constructor: %s result differs from the plain %s' % (k, k),
                          case=smart['line'][:3000])
        base = smart if 'error' not in smart['impl'] else plain
    else:
        base = run_case(B, g, recipe, grid, 'base')
        results.append(base)
    g.results = results
    g.base = base
    if 'error' in base['impl'] or not derive:
        return g
    br = base['recipe']
    bi = base['impl']
    # reversal
    modes = [0, 1, 2] if not light else [rng.randrange(3)]
    for mode in modes:
        rv = run_case(B, g, ['reversed', mode, br], grid, 'reversed%d' % mode)
        results.append(rv)
        same_waveform(B, g, base, rv, 'reversed: %s sampled at t differs from the original at duration - t'
                      % ['ReversedWaveform(w)', 'from_to_reverse(w)', 'w.reversed()'][mode],
                      mirror=True, grid=grid, case=rv['line'][:3000])
    rr = run_case(B, g, ['reversed', 2, ['reversed', 2, br]], grid, 'reversed-twice')
    results.append(rr)
    same_waveform(B, g, base, rr, 'reversed: w.reversed().reversed() differs from w', case=rr['line'][:3000])
    # subsets
    if len(bi['chans']) >= 2:
        subs = [sorted(rng.sample(bi['chans'], rng.randint(1, len(bi['chans']) - 1)))]
        if not light:
            subs.append(sorted(rng.sample(bi['chans'], rng.randint(1, len(bi['chans'])))))
        for chs in subs:
            for mode in ([1, 2] if not light else [1]):
                sb = run_case(B, g, ['subset', mode, br, chs], grid, 'subset%d' % mode)
                results.append(sb)
                same_waveform(B, g, base, sb, 'subset: %s(%r) differs from the original on the remaining channels'
                              % (['', 'get_subset_for_channels', 'unsafe_get_subset_for_channels'][mode], chs),
                              chans=chs, case=sb['line'][:3000])
    if not light:
        history(g, br, base, grid, rng)
        if len(results) > 1 and 'error' not in results[0]['impl'] and results[0] is not base:
            history(g, results[0]['recipe'], results[0], grid, rng, steps=6)
        eq_hash(B, g, br, base, grid, rng)
    return g


def finish_groups(ctx, groups):
    """second pass: finiteness judges (need the model's verdict on well-formedness), then drift"""
    B = Batch()
    for g in groups:
        total_judges(B, g, g.results)
    B.run()
    drifted = []
    for g in groups:
        shapes = [(r['impl'], r['model']) for r in g.results if r['model'] is not None
                  and 'error' not in r['impl'] and 'error' not in r['model']]
        for impl, model in shapes:
            try:
                s = shape_of(impl['obj'])
            except Exception:  # noqa
                ctx.count('structural:unreadable')
                continue
            ctx.count('structural:agree' if s == sx(model['shape']) else 'structural:differ')
        if g.diffs and not g.violated:
            for what, line, impl, model in g.diffs[:3]:
                ctx.drift('C08 %s (%s)' % (what, g.label), line[:3000], impl, model)
            drifted.append(g)
    return drifted


def shape_of(w):
    """serialise the object tree from its slots (recorded as structural agreement only)"""
    m = imp()
    W, T = m['W'], m['T']
    inv_interp = {type(v): k for k, v in m['interp'].items()}
    inv_fn = {v: k for k, v in m['fn'].items()}

    def fr(x):
        return F(int(x.numerator), int(x.denominator)) if hasattr(x, 'numerator') and not isinstance(x, float) else F(float(x))

    def tv(v):
        if hasattr(v, 'evaluate_in_scope'):
            a, b = float(v.evaluate_in_scope({'t': 0.})), float(v.evaluate_in_scope({'t': 1.}))
            return ['expr', F(b) - F(a), F(a)]
        return ['num', F(float(v))]

    def tr(t):
        if isinstance(t, T.IdentityTransformation):
            return ['identity']
        if isinstance(t, T.OffsetTransformation):
            return ['offset', [[c, tv(v)] for c, v in sorted(t._offsets.items())]]
        if isinstance(t, T.ScalingTransformation):
            return ['scaling', [[c, tv(v)] for c, v in sorted(t._factors.items())]]
        if isinstance(t, T.ParallelChannelTransformation):
            return ['parallel', [[c, tv(v)] for c, v in sorted(t._channels.items())]]
        if isinstance(t, T.LinearTransformation):
            return ['linear', [[F(float(x)) for x in row] for row in t._matrix], list(t._input_channels), list(t._output_channels)]
        if isinstance(t, T.ChainedTransformation):
            return ['chain'] + [tr(x) for x in t.transformations]
        raise ValueError

    def go(w):
        if isinstance(w, W.TableWaveform):
            return ['table', w._channel_id, [[fr(e.t), fr(e.v), inv_interp[type(e.interp)]] for e in w._table]]
        if isinstance(w, W.ConstantWaveform):
            return ['const', fr(w.duration), fr(w._amplitude), w._channel]
        if isinstance(w, W.FunctionWaveform):
            a = float(w._expression.evaluate_in_scope({'t': 0.}))
            b = float(w._expression.evaluate_in_scope({'t': 1.}))
            return ['func', F(b) - F(a), F(a), fr(w.duration), w._channel_id]
        if isinstance(w, W.SequenceWaveform):
            return ['seq'] + [go(x) for x in w._sequenced_waveforms]
        if isinstance(w, W.MultiChannelWaveform):
            return ['multi'] + [go(x) for x in w._sub_waveforms]
        if isinstance(w, W.RepetitionWaveform):
            return ['rep', go(w._body), int(w._repetition_count)]
        if isinstance(w, W.TransformingWaveform):
            return ['trans', go(w.inner_waveform), tr(w.transformation)]
        if isinstance(w, W.SubsetWaveform):
            return ['subset', go(w.inner_waveform), sorted(w.defined_channels)]
        if isinstance(w, W.ArithmeticWaveform):
            return ['arith', go(w.lhs), {'+': 'plus', '-': 'minus'}[w.arithmetic_operator], go(w.rhs)]
        if isinstance(w, W.FunctorWaveform):
            return ['functor', go(w._inner_waveform), [[c, inv_fn[f]] for c, f in sorted(w._functor.items())]]
        if isinstance(w, W.ReversedWaveform):
            return ['reversed', go(w._inner)]
        raise ValueError
    return sx(go(w))


# ---------------------------------------------------------------------------------------------
# the decimal stream: durations that are no dyadic rationals (short decimals, thirds)
# ---------------------------------------------------------------------------------------------
#
# Durations are exact rationals (TimeType) but sample times are floats, and the pieces of a sequence / repetition are
# found by comparing floats with float(boundary).  The Lean model compares exact rationals, so it is consulted with a
# tolerance and only at times that are not within 1e-9 of a boundary.  At the boundaries themselves (float(k*d),
# float(duration) and their float neighbours) the implementation is judged relationally: every sample is finite
# (judge-total) and a repetition samples exactly like the plain SequenceWaveform of as many copies (judge-same; both
# accumulate exact TimeType sums, so their float boundaries are bit-identical).

DEC_DURS = [F(1, 10), F(3, 10), F(7, 10), F(1, 3), F(2, 3), F(1, 5), F(9, 100), F(1, 7), F(11, 10)]
TOL = F(1, 2 ** 30)


def gen_dec_body(rng, ch, d):
    """a waveform of the non-dyadic duration `d` that does not fold to a constant"""
    k = rng.random()
    if k < 0.45 and (d * 1000).denominator == 1:
        # short decimal: a table (its last time is the float repr of d)
        v0, v1 = rng.sample(VALS, 2)
        es = [[F(0), v0, 'hold'], [d, v1, rng.choice(['linear', 'linear', 'hold', 'jump'])]]
        if rng.random() < 0.4 and (d * 500).denominator == 1:
            es.insert(1, [d / 2, rng.choice(VALS), rng.choice(['linear', 'hold', 'jump'])])
        return ['table', 0, ch, es]
    if k < 0.8:
        return ['func', 0, rng.choice([F(1), F(-2), F(1, 2)]), rng.choice(VALS), d, ch]
    h = d / 2
    return ['seq', 0, ['func', 0, F(1), F(0), h, ch], ['const', d - h, rng.choice(VALS), ch]]


def gen_decimal(rng):
    d = rng.choice(DEC_DURS)
    n = rng.choice([2, 3, 5, 6, 7, 9, 10, 10, 11, 12])
    chans = rng.sample(POOL, rng.choice([1, 1, 2]))
    if len(chans) == 1:
        body = gen_dec_body(rng, chans[0], d)
    else:
        body = ['multi', flag(rng)] + [gen_dec_body(rng, c, d) for c in chans]
    r = ['rep', flag(rng), body, n]
    k = rng.random()
    if k < 0.15:
        r = ['reversed', rng.randrange(3), r]
    elif k < 0.3:
        r = ['functor', flag(rng), r, [[c, rng.choice(['neg', 'abs', 'pos'])] for c in chans]]
    elif k < 0.45:
        r = ['seq', flag(rng), r, gen_dec_body(rng, chans[0], rng.choice(DEC_DURS))] if len(chans) == 1 else r
    elif k < 0.55:
        r = ['rep', flag(rng), r, rng.choice([2, 3])]
    return r


def float_grid(r, rng, cap=70):
    """float sample times: float(b) for every exact breakpoint b, its float neighbours, mid points, float(duration)"""
    np = imp()['np']
    d, b = bps(r)
    df = float(d)
    pts = set()
    bs = sorted(x for x in b if 0 <= x <= d)
    if len(bs) > 24:
        keep = bs[:8] + bs[-8:] + rng.sample(bs[8:-8], 8)
        bs = sorted(set(keep))
    for x in bs:
        f = float(x)
        for y in (f, float(np.nextafter(f, -1.0)), float(np.nextafter(f, 1e9))):
            if 0.0 <= y <= df:
                pts.add(y)
    for x, y in zip(bs, bs[1:]):
        pts.add(float((x + y) / 2))
    pts |= {0.0, df}
    pts = sorted(pts)
    if len(pts) > cap:
        keep = {0.0, df, pts[-2], pts[1]}
        rest = [p for p in pts if p not in keep]
        rng.shuffle(rest)
        pts = sorted(keep | set(rest[:cap - len(keep)]))
    return pts, sorted(b)


def replace_reps(r):
    """the same recipe with every repetition written as the plain sequence of its copies"""
    if not (isinstance(r, list) and r and isinstance(r[0], str)):
        return r
    if r[0] == 'rep' and isinstance(r[3], int) and r[3] >= 1:
        body = replace_reps(r[2])
        return ['seq', 0] + [body] * r[3]
    if r[0] in ('table', 'const', 'func', 'mapping'):
        return r
    return [r[0]] + [replace_reps(c) if isinstance(c, list) and c and isinstance(c[0], str) and c[0] in KIND_SET else c
                     for c in r[1:]]


KIND_SET = {'table', 'const', 'func', 'seq', 'multi', 'rep', 'trans', 'arith', 'functor', 'reversed', 'subset', 'mapping'}


def observe_floats(r, times):
    np = imp()['np']
    try:
        w = build(r)
        chans = sorted(w.defined_channels)
        dur = F(int(w.duration.numerator), int(w.duration.denominator))
        t = np.array(times, dtype=float)
        samples = {}
        for c in chans:
            fresh = build(r)
            samples[c] = [val(x) for x in fresh.unsafe_sample(c, t.copy())]
        sampled2 = {c: [val(x) for x in build(r).get_sampled(c, t.copy())] for c in chans}
        with_out = {}
        for c in chans:
            out = np.full(len(times), 12345.0)
            build(r).unsafe_sample(c, t.copy(), output_array=out)
            with_out[c] = [val(x) for x in out]
        return {'chans': chans, 'dur': dur, 'samples': samples, 'get_sampled': sampled2, 'with_out': with_out}
    except Exception as e:  # noqa
        return {'error': core.classify_exception(e), 'phase': 'observe', 'msg': '%s: %s' % (type(e).__name__, str(e)[:200])}


def check_decimal(B, ctx, recipe, subseed, label):
    rng = random.Random(subseed)
    g = Group(ctx, recipe, subseed, label)
    g.results = []
    times, bounds = float_grid(recipe, rng)
    exact = [F(t) for t in times]
    impl = observe_floats(recipe, times)
    line = sx(['c08', 'case', recipe, exact])
    ctx.case(line, nontrivial='error' not in impl)
    ctx.count('cases:decimal')
    if 'error' in impl:
        g.violation('not-total: building / sampling a waveform with non-dyadic durations raised %s (%s)'
                    % (impl['error'], impl['msg']), case=line[:3000], times=[repr(t) for t in times])
        return g
    tinfo = dict(times=[repr(t) for t in times])
    n = len(times)

    def bad(a, b=None):
        """the sample times at which a is not finite / differs from b (for the classification of known findings)"""
        fa = flat(a, impl['chans'])
        fb = flat(b, impl['chans']) if b is not None else None
        return sorted({times[i % n] for i in range(len(fa)) if (fa[i] is None if fb is None else fa[i] != fb[i])})
    # (a) total
    judge(B, g, 'judge-total', [vals_sx(flat(impl['samples'], impl['chans']))],
          'not-total: a sample in [0, duration] is not finite (decimal stream, unsafe_sample)', case=line[:3000],
          bad_times=bad(impl['samples']), **tinfo)
    judge(B, g, 'judge-same', [vals_sx(flat(impl['with_out'], impl['chans'])), vals_sx(flat(impl['samples'], impl['chans']))],
          'history: the result depends on whether an output_array is supplied (decimal stream)', case=line[:3000],
          bad_times=bad(impl['with_out'], impl['samples']), **tinfo)
    judge(B, g, 'judge-same', [vals_sx(flat(impl['get_sampled'], impl['chans'])), vals_sx(flat(impl['samples'], impl['chans']))],
          'constant: get_sampled differs from unsafe_sample (decimal stream)', case=line[:3000],
          bad_times=bad(impl['get_sampled'], impl['samples']), **tinfo)
    # (b) a repetition samples like the sequence of its copies
    unrolled = replace_reps(recipe)
    ref = observe_floats(unrolled, times)
    if 'error' not in ref and ref['chans'] == impl['chans']:
        ctx.count('decimal:rep-vs-seq')
        judge(B, g, 'judge-same', [vals_sx(flat(impl['samples'], impl['chans'])), vals_sx(flat(ref['samples'], ref['chans']))],
              'pointwise: a RepetitionWaveform samples differently from the SequenceWaveform of its copies '
              '(piece boundaries at float(k*duration))', case=line[:3000], other=sx(unrolled)[:3000],
              bad_times=bad(impl['samples'], ref['samples']), **tinfo)
    # (c) the exact model, with a tolerance, away from the boundaries
    safe = [all(abs(e - b) > F(1, 10 ** 9) for b in bounds) for e in exact]
    if end_excess(recipe):          # open finding PF-C08e: the end points are not compared
        safe = [ok and not is_end_time(recipe, t) for ok, t in zip(safe, times)]

    def h(ans):
        model = parse_model(ans)
        if 'error' in model:
            g.diffs.append(('error', line, _short(impl), model))
            return
        if model['chans'] != impl['chans'] or model['dur'] != impl['dur']:
            g.diffs.append(('chans/dur', line, _short(impl), _short(model)))
            return
        for c in impl['chans']:
            for i, ok in enumerate(safe):
                if not ok:
                    continue
                a, m = impl['samples'][c][i], model['samples'][c][i]
                ctx.count('decimal:model-compared')
                if (a is None) != (m is None) or (a is not None and abs(a - m) > TOL * max(1, abs(m))):
                    g.diffs.append(('samples(tolerance)', line, 'ch %s t=%r impl %s' % (c, times[i], a), 'model %s' % m))
                    return
    B.ask(line, h)
    return g


def run_decimal(ctx, items, label='decimal', chunk=300):
    drifted = []
    for i in range(0, len(items), chunk):
        B = Batch()
        groups = [check_decimal(B, ctx, r, sub, label) for r, sub in items[i:i + chunk]]
        B.run()
        for g in groups:
            if g.diffs and not g.violated:
                for what, line, impl, model in g.diffs[:2]:
                    ctx.drift('C08 %s (%s)' % (what, label), line[:3000], impl, model)
                drifted.append(g)
    return drifted


# ---------------------------------------------------------------------------------------------
# known open findings: class predicates
# ---------------------------------------------------------------------------------------------

def _tables(r, out):
    if r[0] == 'table':
        out.append(r)
    for c in r[1:]:
        if isinstance(c, list) and c and isinstance(c[0], str) and c[0] in (
                'table', 'seq', 'multi', 'rep', 'trans', 'arith', 'functor', 'reversed', 'subset'):
            _tables(c, out)
    return out


def hold_triple_at_end(es):
    """PF-C08c class: the table ends with three or more entries at the same time and `hold` as last interpolation"""
    return len(es) >= 3 and es[-1][2] == 'hold' and es[-1][0] == es[-2][0] == es[-3][0]


def pf26_class(g, what, kw):
    if not what.startswith('smart-constructor: table'):
        return False
    return g.recipe[0] == 'table' and hold_triple_at_end(g.recipe[3])


def _has(r, kind):
    return isinstance(r, list) and bool(r) and (r[0] == kind or any(_has(c, kind) for c in r[1:] if isinstance(c, list)))


def is_end_time(r, t):
    """t is sampled at the very end of the waveform (under time reversal: float(duration) - t is)"""
    d = float(bps(r)[0])
    return t == d or (_has(r, 'reversed') and d - t == d)


def end_excess(r):
    """PF-C08e class: some sequence / repetition hands its last piece a local end time float(end) - float(start) that
    is larger than float(duration of the piece) (exact rational boundaries rounded to floats, i.e. independent of how
    the implementation accumulates them)"""
    if not (isinstance(r, list) and r and isinstance(r[0], str) and r[0] in KIND_SET):
        return False
    if r[0] == 'rep' and isinstance(r[3], int) and r[3] >= 1:
        d, _ = bps(r[2])
        if float(d * r[3]) - float(d * (r[3] - 1)) > float(d):
            return True
    if r[0] == 'seq' and len(r) > 2:
        durs = [bps(c)[0] for c in r[2:]]
        if float(sum(durs)) - float(sum(durs[:-1])) > float(durs[-1]):
            return True
    return any(end_excess(c) for c in r[1:] if isinstance(c, list))


def pfC08e_class(g, what, kw):
    if not kw.get('bad_times'):
        return False
    return end_excess(g.recipe) and all(is_end_time(g.recipe, t) for t in kw['bad_times'])


def _parallel_sets_time(r):
    """some ParallelChannelTransformation of the recipe sets a channel to the bare time variable `t`"""
    if not isinstance(r, list):
        return False
    if r and r[0] == 'parallel' and len(r) > 1 and isinstance(r[1], list):
        if any(isinstance(kv, list) and len(kv) == 2 and isinstance(kv[1], list) and kv[1][:1] == ['expr']
               and F(kv[1][1]) == 1 and F(kv[1][2]) == 0 for kv in r[1]):
            return True
    return any(_parallel_sets_time(c) for c in r)


def pfC08f_class(g, what, kw):
    """PF-C08f: integer-dtype sample times; a ParallelChannelTransformation whose value is the bare `t` returns the
    (integer) time array as channel data and an ArithmeticWaveform adds a float array into it in place"""
    return (str(kw.get('dtype', '')).startswith('int') and kw.get('exc') == 'UFuncTypeError'
            and _has(g.recipe, 'arith') and _parallel_sets_time(g.recipe))


KNOWN_CLASSES = {'PF-C08c': pf26_class, 'PF-C08e': pfC08e_class, 'PF-C08f': pfC08f_class}


# ---------------------------------------------------------------------------------------------
# case families
# ---------------------------------------------------------------------------------------------

def exhaustive_tables(maxlen):
    """all tables with times in {0,1,2} (first 0, non-decreasing), values in {0,1}, every interpolation"""
    import itertools
    for n in range(2, maxlen + 1):
        for times in itertools.combinations_with_replacement([0, 1, 2], n - 1):
            if times[-1] == 0:
                continue
            for vs in itertools.product([0, 1], repeat=n):
                for ips in itertools.product(['hold', 'jump', 'linear'], repeat=n - 1):
                    es = [[F(0), F(vs[0]), 'hold']] + [[F(t), F(v), i] for t, v, i in zip(times, vs[1:], ips)]
                    yield ['table', 1, 'A', es]


KINDS11 = ['table', 'const', 'func', 'seq', 'multi', 'rep', 'trans', 'subset', 'arith', 'functor', 'reversed']


def small_instance(rng, kind, chans, dur, inner_kind=None):
    """a small waveform of class `kind` on `chans`; its (first) child is of class `inner_kind`"""
    def kid(cs, d):
        if inner_kind is None:
            return gen(rng, 0, cs, d)
        return small_instance(rng, inner_kind, cs, d)
    chans = sorted(chans)
    if kind in ('table', 'const', 'func'):
        if len(chans) > 1:
            return ['multi', 1] + [small_instance(rng, kind, [c], dur) for c in chans]
        c = chans[0]
        if kind == 'table':
            return gen_table(rng, c, dur)
        if kind == 'const':
            return ['const', dur, rng.choice(VALS), c]
        return ['func', flag(rng), rng.choice([F(1), F(-1, 2), F(0)]), rng.choice(VALS), dur, c]
    if kind == 'seq':
        h = dur / 2
        return ['seq', flag(rng), kid(chans, h), gen(rng, 0, chans, h)]
    if kind == 'multi':
        if len(chans) == 1:
            chans = chans + [c for c in POOL if c not in chans][:1]
        return ['multi', flag(rng), kid(chans[:1], dur), gen(rng, 0, chans[1:], dur)]
    if kind == 'rep':
        return ['rep', flag(rng), kid(chans, dur / 2), 2]
    if kind == 'trans':
        t, inner = gen_trafo(rng, chans)
        return ['trans', flag(rng), kid(inner, dur), t]
    if kind == 'subset':
        extra = [c for c in POOL if c not in chans][:1]
        return ['subset', rng.randrange(3), kid(chans + extra, dur), chans]
    if kind == 'arith':
        return ['arith', flag(rng), kid(chans, dur), rng.choice(['plus', 'minus']), gen(rng, 0, chans[:1], dur)]
    if kind == 'functor':
        return ['functor', flag(rng), kid(chans, dur), [[c, rng.choice(['neg', 'abs', 'pos'])] for c in chans]]
    if kind == 'reversed':
        return ['reversed', rng.randrange(3), kid(chans, dur)]
    raise core.MachineryError(kind)


def malformed(rng, n):
    """constructor error paths: the error class is an observable"""
    A1 = ['const', F(1), F(1), 'A']
    B1 = ['const', F(1), F(2), 'B']
    A2 = ['const', F(2), F(1), 'A']
    tab = ['table', 0, 'A', [[F(0), F(0), 'hold'], [F(1), F(1), 'linear']]]
    fixed = [
        ['seq', 0, A1, B1], ['seq', 1, A1, B1], ['seq', 0], ['seq', 1],
        ['seq', 1, tab, ['table', 0, 'B', [[F(0), F(0), 'hold'], [F(1), F(1), 'linear']]]],
        ['multi', 0, A1, A1], ['multi', 1, A1, tab], ['multi', 0, A1, ['const', F(2), F(1), 'B']], ['multi', 0], ['multi', 1],
        ['multi', 0, A1, ['const', F(1) + F(1, 2 ** 31), F(1), 'B']],
        ['multi', 0, A1, ['const', F(1) + F(1, 2 ** 29), F(1), 'B']],
        ['multi', 0, tab, ['const', F(1) + F(1, 2 ** 31), F(1), 'B']],
        ['rep', 0, tab, 0], ['rep', 0, tab, -1], ['rep', 1, tab, 0], ['rep', 1, A1, 0], ['rep', 1, A1, -2],
        ['arith', 0, tab, 'plus', A2], ['arith', 1, tab, 'plus', A2], ['arith', 1, A1, 'minus', A2],
        ['arith', 0, tab, 'plus', ['const', F(1) + F(1, 2 ** 17), F(1), 'A']],
        ['arith', 0, tab, 'plus', ['const', F(1) + F(1, 2 ** 16), F(1), 'A']],
        ['arith', 1, A1, 'plus', ['const', F(1) + F(1, 2 ** 31), F(1), 'A']],
        ['arith', 1, A1, 'plus', ['const', F(1) + F(1, 2 ** 29), F(1), 'A']],
        ['functor', 0, tab, [['B', 'neg']]], ['functor', 0, tab, [['A', 'neg'], ['B', 'neg']]],
        ['functor', 1, A1, [['B', 'neg']]], ['functor', 1, A1, [['A', 'neg'], ['B', 'neg']]], ['functor', 1, tab, []],
        ['subset', 1, ['multi', 0, A1, B1], ['C']], ['subset', 1, ['multi', 0, A1, B1], ['A', 'C']],
        ['subset', 1, ['multi', 0, A1, B1], []], ['subset', 2, ['seq', 0, ['multi', 0, A1, B1], ['multi', 0, A1, B1]], []],
        ['subset', 2, ['multi', 0, A1, B1], ['C']],
        ['mapping', F(1), []],
        ['table', 1, 'A', []], ['table', 1, 'A', [[F(0), F(1), 'hold']]],
        ['table', 1, 'A', [[F(1), F(1), 'hold'], [F(2), F(1), 'hold']]],
        ['table', 1, 'A', [[F(0), F(1), 'hold'], [F(-1), F(1), 'hold']]],
        ['table', 1, 'A', [[F(0), F(1), 'hold'], [F(2), F(1), 'hold'], [F(1), F(1), 'hold']]],
        ['table', 1, 'A', [[F(0), F(1), 'hold'], [F(0), F(2), 'hold']]],
        ['table', 1, 'A', [[F(0), F(1), 'hold'], [F(0), F(2), 'hold'], [F(0), F(3), 'jump']]],
        ['trans', 0, A1, ['linear', [[F(1), F(1)]], ['A', 'B'], ['C']]],
        ['trans', 1, A1, ['linear', [[F(1), F(1)]], ['A', 'B'], ['C']]],
        ['trans', 0, A1, ['linear', [[F(1), F(1)]], ['A'], ['C']]],
    ]
    out = list(fixed)
    for _ in range(n):
        r = gen_top(rng, 2)
        # break it: mismatching piece
        k = rng.choice(['seq', 'multi', 'arith', 'rep'])
        bad = gen(rng, 0, rng.sample(POOL, 1), rng.choice(DURS))
        if k == 'seq':
            out.append(['seq', flag(rng), r, bad])
        elif k == 'multi':
            out.append(['multi', flag(rng), r, bad])
        elif k == 'arith':
            out.append(['arith', flag(rng), r, 'plus', bad])
        else:
            out.append(['rep', flag(rng), r, rng.choice([0, -1, 1])])
    return out


# ---------------------------------------------------------------------------------------------
# the run
# ---------------------------------------------------------------------------------------------

def run_family(ctx, items, label, light=False, chunk=400, derive=True):
    """items: list of (recipe, subseed).  Returns the groups that drifted."""
    drifted = []
    for i in range(0, len(items), chunk):
        B = Batch()
        groups = []
        for recipe, subseed in items[i:i + chunk]:
            groups.append(check_group(B, ctx, recipe, subseed, label, light=light, derive=derive))
        B.run()
        drifted += finish_groups(ctx, groups)
    return drifted


def search(ctx, drifted):
    """failing-input search after a drift: shrink (sub-recipes of the drifting recipes), then fresh random groups;
    everything is judged on the implementation's output"""
    items = []
    seen = set()

    def subs(r):
        for c in r[1:]:
            if isinstance(c, list) and c and isinstance(c[0], str) and c[0] in (
                    'table', 'const', 'func', 'seq', 'multi', 'rep', 'trans', 'arith', 'functor', 'reversed',
                    'subset', 'mapping'):
                yield c
                yield from subs(c)
    for g in drifted[:10]:
        for s in subs(g.recipe):
            key = sx(s)
            if key not in seen:
                seen.add(key)
                items.append((s, g.subseed))
    before = ctx.disagreements
    nd = len(ctx.drifts)
    rng = ctx.fork('search')
    items += [(gen_top(rng, 3), rng.getrandbits(32)) for _ in range(ctx.n(300, 3000))]
    ctx.count('search:groups', len(items))
    run_family(ctx, items[:ctx.n(500, 5000)], 'search')
    # drifts found during the search describe the same broken correspondence; keep the originals
    del ctx.drifts[nd + 20:]
    ctx.disagreements = max(before, ctx.disagreements)


def witnesses_known(ctx):
    """replay the witnesses of open findings (prints the KNOWN-FINDING lines)"""
    for kf in ctx.findings.for_property('C08'):
        w = kf.get('witness') or {}
        if 'recipe' in w and 'expect_raises' in w:
            # the class lies outside the model's well-formedness predicate: replay on the implementation only
            r = recipe_of_line(w['recipe'])
            impl = observe(r, make_grid(r, random.Random(0)))
            ctx.case(sx(['c08', 'case', r, []]), nontrivial=False)
            if impl.get('phase') == 'observe' and impl.get('error') == w['expect_raises']:
                ctx.known_finding(kf['finding'], kf.get('what', ''))
            else:
                ctx.count('known-not-reproduced:' + kf['finding'])
        elif 'recipe' in w and w.get('kind') == 'decimal':
            run_decimal(ctx, [(recipe_of_line(w['recipe']), w.get('subseed', 0))], 'decimal-known-' + kf['finding'])
            if not any(l.startswith('KNOWN-FINDING: property=C08 %s' % kf['finding']) for l in ctx.known_printed):
                ctx.count('known-not-reproduced:' + kf['finding'])
        elif 'recipe' in w:
            B = Batch()
            g = check_group(B, ctx, recipe_of_line(w['recipe']), w.get('subseed', 0), 'known-' + kf['finding'], light=False)
            B.run()
            finish_groups(ctx, [g])
            if not any(l.startswith('KNOWN-FINDING: property=C08 %s' % kf['finding']) for l in ctx.known_printed):
                ctx.count('known-not-reproduced:' + kf['finding'])


def run(ctx: core.Ctx):
    warnings.filterwarnings('ignore')
    ctx.rule = ('recipes (trees of constructor calls over the eleven real waveform classes, plain and optimising '
                'constructors chosen per node, depth <= %d) on dyadic values/times; per recipe: plain vs smart top '
                'constructor, three kinds of reversal, double reversal, channel subsets (checked and unchecked), call '
                'histories, ==/hash on rebuilt and mutated recipes; grids contain every breakpoint, both end points, '
                'neighbours and their mirror images. Non-trivial = the recipe builds and has at least one composite '
                'node; distinct by canonical case line' % ctx.n(4, 6))
    ctx.assumptions = [
        'float arithmetic is exact on the dyadic stream (values k/4, times k/32, power-of-two linear segments)',
        'numpy aliasing / caches are exercised by generated call histories, not modelled',
        'the process-wide sample cache keyed by hash(bytes) is collision free',
        'function waveforms and time dependent transformation values are affine in t',
        'channel names are strings',
    ]
    imp()
    drifted = []
    # corpus first
    for rec in ctx.corpus():
        replay(ctx, rec, from_corpus=True)
        ctx.corpus_replayed += 1
    witnesses_known(ctx)
    # exhaustive small scopes
    maxlen = ctx.n(3, 4)
    tabs = [(r, 1) for r in exhaustive_tables(maxlen)]
    ctx.exhaustive_spaces.append('from_table vs TableWaveform: all tables with <= %d entries, times in {0,1,2}, values in '
                                 '{0,1}, all interpolations (%d tables)' % (maxlen, len(tabs)))
    drifted += run_family(ctx, tabs, 'exh-table', light=True)
    rng = ctx.fork('pairs')
    pairs = []
    for rounds in range(ctx.n(1, 6)):
        for outer in KINDS11:
            for inner in KINDS11:
                chans = rng.sample(POOL, rng.choice([1, 2, 2]))
                pairs.append((small_instance(rng, outer, chans, rng.choice([F(1), F(2), F(4)]), inner),
                              rng.getrandbits(32)))
    ctx.exhaustive_spaces.append('all 121 outer/inner pairs of the eleven waveform classes (%d instances)' % len(pairs))
    drifted += run_family(ctx, pairs, 'pairs')
    # random trees
    rng = ctx.fork('trees')
    depth = ctx.n(4, 6)
    trees = []
    for _ in range(ctx.n(1500, 30000)):
        r = gen_top(rng, rng.randint(1, depth))
        trees.append((r, rng.getrandbits(32)))
        ctx.count('depth:%d' % depth_of(r))
        for k, v in node_kinds(r, {}).items():
            ctx.count('node:' + k, v)
    if ctx.quick:
        drifted += run_family(ctx, trees, 'tree')
    else:
        drifted += run_parallel(ctx, trees, 'tree')
    # decimal stream (non-dyadic durations, float boundaries)
    rng = ctx.fork('decimal')
    dec = [(gen_decimal(rng), rng.getrandbits(32)) for _ in range(ctx.n(250, 5000))]
    run_decimal(ctx, dec)
    # malformed stream
    rng = ctx.fork('malformed')
    bad = [(r, rng.getrandbits(32)) for r in malformed(rng, ctx.n(150, 2000))]
    drifted += run_family(ctx, bad, 'malformed', light=True, derive=False)
    if drifted:
        search(ctx, drifted)


# ---------------------------------------------------------------------------------------------
# thorough tier: the python side in worker processes
# ---------------------------------------------------------------------------------------------

def _worker(args):
    pid, tier, seed, items, label = args
    warnings.filterwarnings('ignore')
    sub = core.Ctx(pid, tier, seed)
    sub.violation_records = []
    orig = sub.violation

    def record(what, replay, found_input=True):
        sub.violation_records.append((what, replay, found_input))
    sub.violation = record
    sub.known_finding = lambda fid, what: sub.violation_records.append(('KNOWN', fid, what))
    drifted = run_family(sub, items, label)
    return {'evaluations': sub.evaluations, 'distinct': sub.distinct, 'counters': sub.counters,
            'violations': sub.violation_records, 'drifts': sub.drifts, 'disagreements': sub.disagreements,
            'drifted': [(g.recipe, g.subseed) for g in drifted], 'samples': sub.samples}


def run_parallel(ctx, items, label, procs=14):
    import multiprocessing
    chunks = [items[i::procs] for i in range(procs)]
    mp = multiprocessing.get_context('fork')
    with mp.Pool(procs) as pool:
        outs = pool.map(_worker, [(ctx.pid, ctx.tier, ctx.seed, c, label) for c in chunks if c])
    drifted = []
    for o in outs:
        ctx.evaluations += o['evaluations']
        ctx.distinct |= o['distinct']
        for k, v in o['counters'].items():
            ctx.count(k, v)
        ctx.disagreements += o['disagreements']
        ctx.drifts += o['drifts']
        for v in o['violations']:
            if v[0] == 'KNOWN':
                ctx.known_finding(v[1], v[2])
            else:
                ctx.violation(*v)
        for s in o['samples']:
            if len(ctx.samples) < 12:
                ctx.samples.append(s)
        drifted += [Group(ctx, r, s, label) for r, s in o['drifted']]
    return drifted


# ---------------------------------------------------------------------------------------------
# replay
# ---------------------------------------------------------------------------------------------

def replay(ctx: core.Ctx, rec: dict, from_corpus: bool = False) -> bool:
    warnings.filterwarnings('ignore')
    imp()
    before = len(ctx.violations)
    if rec.get('kind') == 'group':
        recipe = recipe_of_line(rec['recipe'])
        B = Batch()
        # corpus witnesses are replayed with several call histories / equality partners, so that they keep their
        # power when the history generator changes
        subseeds = [rec.get('subseed', 0) + i for i in range(8 if from_corpus else 1)]
        shared = set() if from_corpus else None
        groups = [check_group(B, ctx, recipe, sub, rec.get('label', 'replay'), light=bool(rec.get('light', False)),
                              shared=shared)
                  for sub in subseeds]
        B.run()
        drifted = finish_groups(ctx, groups)
        if drifted and not from_corpus:
            ctx.finish()
    elif rec.get('kind') == 'decimal':
        run_decimal(ctx, [(recipe_of_line(rec['recipe']), rec.get('subseed', 0))], rec.get('label', 'replay'))
        if ctx.drifts and not from_corpus:
            ctx.finish()
    else:
        raise core.MachineryError('unknown replay record kind %r' % rec.get('kind'))
    return len(ctx.violations) == before
