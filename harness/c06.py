"""C06 — hardware-preparation rewrites of a program preserve its output and terminate.

Correspondence: real `qupulse.program.loop.Loop` trees with real waveforms (hand-built trees and
programs produced by `create_program` of real pulse templates, including `TimeReversalPT`) are
rewritten by the real `flatten_and_balance / cleanup / unroll / unroll_children / encapsulate /
split_one_child / _merge_single_child / make_compatible / roll_constant_waveforms`; the same trees
(leaf waveforms abstracted to atoms `(id, duration, constant?)`) go through the Lean model `QP.C06`.

Oracles on the implementation's result (independent of the model's rewrite functions):
  * the sampled voltages on every channel before / after, rendered by this harness from the leaf
    waveforms (exact comparison on a dyadic grid);
  * the Lean judge `QP.C06.judgeOk / judgeErr` on the re-serialised result tree: same played atom
    sequence (up to splitting constants), same duration, reported `duration / depth() /
    is_balanced()` consistent, depth/balance or length/granularity postcondition;
  * a wall-clock limit (non-termination is an outcome, not a hung check).
"""
from __future__ import annotations

import fractions
import itertools
import json
import multiprocessing
import os
import signal
import warnings

import core
from core import sx

F = fractions.Fraction

STEP = F(1, 4)               # sampling grid of the renderer (all generated durations are multiples)
CASE_TIMEOUT = 2.0           # seconds per rewrite (pinned PF-05 inputs loop forever)


# ---------------------------------------------------------------------------------------------
# real waveforms
# ---------------------------------------------------------------------------------------------

_Q = []


def _q():
    if not _Q:
        import numpy as np
        from qupulse.program import loop as L
        from qupulse.program import waveforms as W
        from qupulse.utils.types import TimeType
        _Q.append((np, L, W, TimeType))
    return _Q[0]


def _tt(fr):
    from qupulse.utils.types import TimeType
    fr = F(fr)
    return TimeType.from_fraction(fr.numerator, fr.denominator)


PALETTE_KEYS = ['ramp2', 'tab1', 'c05a', 'c05b', 'cm', 'fun1', 'rramp', 'rfun', 'mc', 'mcc', 'seq', 'z0', 'z1', 'mk0', 'mk1',
                'k32', 'k35', 'k128', 'k70', 'k6', 'k12']
SMALL_KEYS = ['ramp2', 'tab1', 'z0', 'z1', 'c05a', 'c05b', 'cm', 'fun1', 'mk0', 'mk1', 'rramp', 'rfun', 'mc', 'mcc', 'seq']
DECIMAL_KEYS = {'d01': ('1/10', '8*t', '1 - 4*t'), 'd03': ('3/10', '2*t', '0.5 - t'), 'd07': ('7/10', 't', '-t/2'),
                'd13': ('1/3', '2*t', 't'), 'd16': ('1/6', '4*t', '1 - 2*t')}
MARKER_KEYS = ['z0', 'z1', 'mk0', 'mk1', 'mk0b', 'c05a']
CONST_LONG = ['k32', 'k35', 'k128', 'k70', 'k6', 'k12']

_palette_cache = {}


def palette(key):
    """A real waveform on channels {A, B} with dyadic values and a duration that is a multiple of 1/2."""
    if key in _palette_cache:
        return _palette_cache[key]
    np, L, W, TimeType = _q()
    from qupulse.expressions import ExpressionScalar
    from qupulse.pulses.interpolation import LinearInterpolationStrategy, HoldInterpolationStrategy, \
        JumpInterpolationStrategy
    lin, hold, jump = LinearInterpolationStrategy(), HoldInterpolationStrategy(), JumpInterpolationStrategy()
    E = W.TableWaveformEntry

    def both(a, b):
        return W.MultiChannelWaveform([a, b])

    def const(d, va, vb):
        return W.ConstantWaveform.from_mapping(_tt(d), {'A': va, 'B': vb})

    def tab(ch, entries):
        return W.TableWaveform(ch, tuple(E(float(t), float(v), s) for t, v, s in entries))

    if key == 'ramp2':
        wf = both(tab('A', [(0, 0, hold), (2, 1, lin)]), tab('B', [(0, 1, hold), (1, 0.5, hold), (2, -1, lin)]))
    elif key == 'tab1':
        wf = both(tab('A', [(0, 0.25, hold), (0.5, 0.75, jump), (1, 0.5, lin)]), tab('B', [(0, 0, hold), (1, 0.5, lin)]))
    elif key == 'c05a':
        wf = const(F(1, 2), 0.5, -0.5)
    elif key == 'c05b':
        wf = const(1, 0.5, -0.5)
    elif key == 'cm':
        wf = const(F(3, 2), -0.25, 0.125)
    elif key == 'fun1':
        wf = both(W.FunctionWaveform(ExpressionScalar('0.5*t'), 1, 'A'), W.FunctionWaveform(ExpressionScalar('t*t/4 - 1'), 1, 'B'))
    elif key == 'rramp':
        wf = W.ReversedWaveform(both(tab('A', [(0, -1, hold), (1.5, 0.5, lin)]), tab('B', [(0, 0, hold), (1.5, 0.75, lin)])))
    elif key == 'rfun':
        wf = W.ReversedWaveform(both(W.FunctionWaveform(ExpressionScalar('t/8'), 2, 'A'),
                                     W.FunctionWaveform(ExpressionScalar('1 - t/2'), 2, 'B')))
    elif key == 'mc':
        # one constant channel, one ramp: not constant as a whole
        wf = both(W.ConstantWaveform(_tt(1), 0.5, 'A'), tab('B', [(0, 0, hold), (1, 1, lin)]))
    elif key == 'mcc':
        # same values as c05a/c05b but built from two single-channel constants
        wf = both(W.ConstantWaveform(_tt(2), 0.5, 'A'), W.ConstantWaveform(_tt(2), -0.5, 'B'))
    elif key in DECIMAL_KEYS:
        # durations that are no binary fractions (exact as TimeType); continuous inside, a jump at the end
        d, ea, eb = DECIMAL_KEYS[key]
        wf = both(W.FunctionWaveform(ExpressionScalar(ea), _tt(F(d)), 'A'), W.FunctionWaveform(ExpressionScalar(eb), _tt(F(d)), 'B'))
    elif key == 'q14':
        # shorter than one sample on coarse grids
        wf = both(tab('A', [(0, 0.25, hold), (0.25, 0.5, lin)]), tab('B', [(0, -0.5, hold), (0.25, -0.25, lin)]))
    elif key == 'q34':
        wf = both(tab('A', [(0, 1, hold), (0.75, 0.25, lin)]), W.FunctionWaveform(ExpressionScalar('t - 0.5'), _tt(F(3, 4)), 'B'))
    elif key == 'z0':
        # marker-like channels: piecewise constant with a leading exact zero (0 -> L once merged with z1)
        wf = const(F(1, 2), 0.0, 0.25)
    elif key == 'z1':
        wf = const(1, 1.0, 0.25)
    elif key == 'mk0':
        # analog ramp on A, marker low on B
        wf = both(tab('A', [(0, 0, hold), (0.5, 0.5, lin)]), W.ConstantWaveform(_tt(F(1, 2)), 0.0, 'B'))
    elif key == 'mk0b':
        wf = both(tab('A', [(0, 0.5, hold), (1, -0.5, lin)]), W.ConstantWaveform(_tt(1), 0, 'B'))
    elif key == 'mk1':
        # analog ramp on A, marker high on B
        wf = both(tab('A', [(0, 0.5, hold), (1, 0, lin)]), W.ConstantWaveform(_tt(1), 1.0, 'B'))
    elif key == 'seq':
        # an already merged leaf
        wf = W.SequenceWaveform([palette('tab1'), palette('c05a'), palette('fun1')])
    elif key.startswith('k'):
        wf = const(int(key[1:]), 0.75, -0.125)
    else:
        raise core.MachineryError('unknown palette key %r' % key)
    _palette_cache[key] = wf
    return wf


class Opaque(Exception):
    """a leaf waveform that cannot be decomposed into the input's atoms (only the sampled output is compared then)"""


class Registry:
    """atom ids: constants by value dictionary, other waveforms by equality"""

    def __init__(self):
        self.consts = {}
        self.wfs = {}
        self.frozen = False

    def const_id(self, cv):
        k = tuple(sorted((str(ch), float(v)) for ch, v in cv.items()))
        if k not in self.consts:
            self.consts[k] = 1000 + len(self.consts)
        return self.consts[k]

    def atoms(self, wf):
        np, L, W, TimeType = _q()
        cv = wf.constant_value_dict()
        if cv is not None:
            return [(self.const_id(cv), core.to_frac(wf.duration), True)]
        if isinstance(wf, W.SequenceWaveform):
            out = []
            for sub in wf.sequenced_waveforms:
                out.extend(self.atoms(sub))
            return out
        if isinstance(wf, W.RepetitionWaveform):
            return self.atoms(wf._body) * int(wf._repetition_count)
        try:
            hash(wf)
            key = wf
        except TypeError:
            key = ('id', id(wf))
        if key not in self.wfs:
            if self.frozen:
                raise Opaque()
            self.wfs[key] = len(self.wfs)
        return [(self.wfs[key], core.to_frac(wf.duration), False)]


def ser_loop(loop, reg):
    """the real tree as the model's S-expression"""
    wf = loop.waveform
    if wf is None:
        w = '-'
    else:
        w = [[i, d, c] for i, d, c in reg.atoms(wf)]
    return ['L', int(loop.repetition_count), loop.volatile_repetition is not None, bool(loop._measurements), w,
            [ser_loop(c, reg) for c in loop]]


# ---------------------------------------------------------------------------------------------
# renderer (independent of to_waveform): sampled voltages of a Loop on the STEP grid
# ---------------------------------------------------------------------------------------------

_sample_cache = {}      # id(waveform) -> (waveform kept alive, samples); palette waveforms recur in every case


def render(loop, rate=None):
    """Independent reference: the sampled voltages of the program on the global grid k / rate, computed LEAF BY
    LEAF from the played leaf waveforms.  Every occurrence of a leaf starts at the exact accumulated time T
    (a Fraction); it owns the grid points T <= k/rate < T + D and is sampled on its own through the public
    `get_sampled(channel, k/rate - T)` (exact local times).  Leaf durations need not be whole numbers of samples.
    Default grid: STEP (rate 4)."""
    np, L, W, TimeType = _q()
    rate = int(1 / STEP) if rate is None else int(rate)
    cache = _sample_cache
    if len(cache) > 5000:
        cache.clear()
    pieces = {'A': [], 'B': []}
    clock = [F(0)]

    def sample(wf, phase, dsamples):
        # phase = distance (in samples) from the leaf's start to its first grid point, 0 <= phase < 1
        k = (id(wf), rate, phase)
        if k not in cache:
            n = dsamples - phase
            n = 0 if n <= 0 else int(-((-n.numerator) // n.denominator))       # ceil
            t = np.array([float((phase + j) / rate) for j in range(n)], dtype=float)
            cache[k] = (wf, {ch: np.array(wf.get_sampled(ch, t), dtype=float) for ch in ('A', 'B')})
        return cache[k][1]

    budget = [400000]

    def emit(node):
        rep = int(node.repetition_count)
        if len(node) == 0:
            wf = node.waveform
            if wf is None:
                return
            d = core.to_frac(wf.duration)
            dsamples = d * rate
            if dsamples.denominator == 1 and (clock[0] * rate).denominator == 1:
                s = sample(wf, F(0), dsamples)
                for ch in pieces:
                    pieces[ch].extend([s[ch]] * rep)
                clock[0] += d * rep
                budget[0] -= rep
            else:
                for _ in range(rep):
                    phase = (-clock[0] * rate) % 1
                    s = sample(wf, phase, dsamples)
                    for ch in pieces:
                        pieces[ch].append(s[ch])
                    clock[0] += d
                budget[0] -= rep
        else:
            for _ in range(rep):
                for c in node:
                    emit(c)
        if budget[0] < 0:
            raise core.MachineryError('render budget exceeded')

    emit(loop)
    return {ch: (np.concatenate(v) if v else np.zeros(0)) for ch, v in pieces.items()}


# ---------------------------------------------------------------------------------------------
# building real trees
# ---------------------------------------------------------------------------------------------

def build_loop(spec):
    """spec = [rep, vol, meas, leafkey|None, children]"""
    np, L, W, TimeType = _q()
    rep, vol, meas, leaf, children = spec
    if vol:
        from qupulse.program.volatile import VolatileRepetitionCount
        from qupulse.parameter_scope import DictScope
        from qupulse.expressions import ExpressionScalar
        from qupulse.utils.types import FrozenDict
        if 'expr' not in _palette_cache:
            _palette_cache['expr'] = ExpressionScalar('n_rep')
        if ('scope', rep) not in _palette_cache:
            _palette_cache['scope', rep] = DictScope(FrozenDict({'n_rep': rep}), volatile=frozenset({'n_rep'}))
        repdef = VolatileRepetitionCount(_palette_cache['expr'], _palette_cache['scope', rep])
    else:
        repdef = rep
    return L.Loop(children=[build_loop(c) for c in children],
                  waveform=palette(leaf) if leaf is not None else None,
                  measurements=[('m', 0., 0.25)] if meas else None,
                  repetition_count=repdef)


def build_template(spec):
    """spec: ['table', d, v0, v1, meas] | ['const', d, v, meas] | ['func', d, slope, meas] | ['idx', d]
             | ['seq', [..], meas] | ['rep', n, body, meas] | ['for', n, body] | ['rev', body]"""
    from qupulse.pulses import TablePT, ConstantPT, FunctionPT, SequencePT, RepetitionPT, ForLoopPT, TimeReversalPT
    kind = spec[0]

    def ms(flag, d):
        return [('m', 0, 0.25)] if flag else None

    if kind == 'table':
        _, d, v0, v1, m = spec
        return TablePT({'A': [(0, v0), (d, v1, 'linear')], 'B': [(0, v1), (d, v0, 'linear')]}, measurements=ms(m, d))
    if kind == 'const':
        _, d, v, m = spec
        return ConstantPT(d, {'A': v, 'B': -v}, measurements=ms(m, d))
    if kind == 'func':
        _, d, s, m = spec
        from qupulse.pulses import AtomicMultiChannelPT
        return AtomicMultiChannelPT(FunctionPT('%r*t' % s, d, 'A'), FunctionPT('1-%r*t' % s, d, 'B'), measurements=ms(m, d))
    if kind == 'idx':
        _, d = spec
        return TablePT({'A': [(0, 'i*0.25'), (d, 0, 'linear')], 'B': [(0, 0), (d, 'i*0.125', 'linear')]})
    if kind == 'seq':
        _, subs, m = spec
        return SequencePT(*[build_template(s) for s in subs], measurements=ms(m, 1))
    if kind == 'rep':
        _, n, body, m = spec
        return RepetitionPT(build_template(body), n, measurements=ms(m, 1))
    if kind == 'for':
        _, n, body = spec
        return ForLoopPT(SequencePT(build_template(['idx', 1]), build_template(body)), 'i', n)
    if kind == 'rev':
        return TimeReversalPT(build_template(spec[1]))
    raise core.MachineryError('bad template spec %r' % (spec,))


_pt_cache = {}


def make_program(source):
    """source = {'tree': spec} | {'template': spec, 'params': {...}}  ->  real Loop (or None)"""
    if 'tree' in source:
        return build_loop(source['tree'])
    key = json.dumps(source['template'])
    if _pt_cache.get('key') != key:
        _pt_cache.update(key=key, pt=build_template(source['template']))
    # a fresh create_program per rewrite: a copy of a created program would not carry the child
    # positions left behind by `reverse_inplace` (PF-05)
    return _pt_cache['pt'].create_program(parameters=source.get('params', {'i': 0}))


# ---------------------------------------------------------------------------------------------
# applying one rewrite to a real tree (runs inside a worker)
# ---------------------------------------------------------------------------------------------

ERRMAP = {'RuntimeError': 'runtime_error', 'ValueError': 'value_error', 'AssertionError': 'assertion',
          'IndexError': 'index_error', 'ZeroDivisionError': 'zero_division'}


class _Timeout(BaseException):
    pass


def _alarm(*_a):
    raise _Timeout()


def apply_op(loop, op):
    np, L, W, TimeType = _q()
    name = op[0]
    if name == 'encapsulate':
        loop.encapsulate()
    elif name == 'unroll-children':
        loop.unroll_children()
    elif name == 'unroll':
        loop[op[1]].unroll()
    elif name == 'merge':
        loop._merge_single_child()
    elif name == 'split':
        loop.split_one_child(None if op[1] is None else op[1])
    elif name == 'cleanup':
        actions = tuple(a for a, on in (('remove_empty_loops', op[1]), ('merge_single_child', op[2])) if on)
        loop.cleanup(actions)
    elif name == 'flatten':
        loop.flatten_and_balance(op[1])
    elif name == 'compat':
        L.make_compatible(loop, op[1], op[2], _tt(F(op[3])))
    elif name == 'roll':
        L.roll_constant_waveforms(loop, op[1], op[2], _tt(F(op[3])))
    else:
        raise core.MachineryError('unknown op %r' % (op,))


def op_sx(op):
    name = op[0]
    if name == 'split':
        return ['split', 'none' if op[1] is None else op[1]]
    if name in ('compat', 'roll'):
        return [name, op[1], op[2], F(op[3])]
    return list(op)


_pre = {'key': None}


def nested_boundaries(loop):
    """PF-C06-3 class: exact times (program time) of the piece boundaries inside every composite waveform that
    is itself a piece of a composite waveform at a non-zero offset.  There the real code decides piece
    membership of a sample from `t - float(offset)`, which is rounded."""
    np, L, W, TimeType = _q()
    out = set()

    def pieces(wf):
        if isinstance(wf, W.SequenceWaveform):
            return list(wf.sequenced_waveforms)
        if isinstance(wf, W.RepetitionWaveform):
            return [wf._body] * int(wf._repetition_count)
        return None

    def walk_wf(wf, t0, inside_shifted):
        ps = pieces(wf)
        if ps is None:
            return
        t = t0
        for i, p in enumerate(ps):
            if inside_shifted and i > 0:
                out.add(t)
            walk_wf(p, t, inside_shifted or t != t0 or False)
            t += core.to_frac(p.duration)

    def walk_top(wf, t0):
        ps = pieces(wf)
        if ps is None:
            return
        t = t0
        for p in ps:
            # a piece at local offset 0 sees exact times; a later one sees t - float(offset)
            walk_wf(p, t, t != t0)
            t += core.to_frac(p.duration)

    clock = [F(0)]

    def emit(node):
        for _ in range(int(node.repetition_count)):
            if len(node) == 0:
                if node.waveform is not None:
                    walk_top(node.waveform, clock[0])
                    clock[0] += core.to_frac(node.waveform.duration)
            else:
                for c in node:
                    emit(c)
    emit(loop)
    return out


def np_abs(x):
    return _q()[0].abs(x)


def run_case(case):
    """case = {'source':…, 'op':[…]} -> plain-data result (see keys below); never raises for
    behaviour of the implementation, only for harness problems."""
    warnings.simplefilter('ignore')
    source, op = case['source'], case['op']
    rate = case.get('rate')
    loop = make_program(source)
    if loop is None:
        return {'skip': 'empty-program'}
    key = json.dumps([source, rate], sort_keys=True)
    if _pre['key'] != key:
        # what only depends on the input program is computed once for all rewrites tried on it
        reg = Registry()
        try:
            tin = sx(ser_loop(loop, reg))
        except Opaque:
            return {'skip': 'opaque-input'}
        reg.frozen = True
        _pre.update(key=key, reg=reg, tin=tin, before=render(loop, rate))
    reg, tin, before = _pre['reg'], _pre['tin'], _pre['before']
    dur_before = core.to_frac(loop.duration)          # also fills the duration caches (PF-06a)
    status, err = 'ok', None
    signal.signal(signal.SIGALRM, _alarm)
    signal.setitimer(signal.ITIMER_REAL, CASE_TIMEOUT)
    try:
        # a pipeline: the earlier rewrites of the same program (each of them is judged by its own case)
        for pre_op in case.get('pre', ()):
            try:
                apply_op(loop, pre_op)
                loop.duration
            except core.MachineryError:
                raise
            except _Timeout:
                raise
            except Exception:  # noqa
                signal.setitimer(signal.ITIMER_REAL, 0)
                return {'skip': 'pipeline-prefix-raised'}
        apply_op(loop, op)
    except _Timeout:
        status = 'timeout'
    except core.MachineryError:
        raise
    except Exception as exc:  # noqa
        status, err = 'error', ERRMAP.get(type(exc).__name__, 'other:' + type(exc).__name__)
    finally:
        signal.setitimer(signal.ITIMER_REAL, 0)
    res = {'tin': tin, 'status': status, 'err': err, 'dur_before': str(dur_before)}
    if status == 'timeout':
        return res
    try:
        after = render(loop, rate)
        tol = 2.0 ** -30 if case.get('tol') else 0.0     # decimal family: local sample times differ by rounding

        def differ(ch):
            return before[ch].shape != after[ch].shape or bool((np_abs(before[ch] - after[ch]) > tol).any())
        res['sampled_equal'] = not any(differ(ch) for ch in before)
        if not res['sampled_equal'] and case.get('tol') and all(before[ch].shape == after[ch].shape for ch in before):
            # classify: only samples lying exactly on a piece boundary of a nested, shifted composite waveform differ?
            bad = set()
            for ch in before:
                bad |= set(int(i) for i in (np_abs(before[ch] - after[ch]) > tol).nonzero()[0])
            nb = {b * int(rate) for b in nested_boundaries(loop)}
            if bad and all(F(i) in nb for i in bad):
                res['known_class'] = 'PF-C06-3'
        if not res['sampled_equal']:
            ch = 'A' if differ('A') else 'B'
            res['sampled_diff'] = 'channel %s: %d samples before, %d after%s' % (
                ch, len(before[ch]), len(after[ch]),
                '' if len(before[ch]) != len(after[ch]) else
                ', first difference at sample %d (%r -> %r)' % (
                    int((np_abs(before[ch] - after[ch]) > tol).argmax()),
                    float(before[ch][(np_abs(before[ch] - after[ch]) > tol).argmax()]),
                    float(after[ch][(np_abs(before[ch] - after[ch]) > tol).argmax()])))
    except core.MachineryError as e:
        res['sampled_equal'] = None
        res['sampled_diff'] = str(e)
    try:
        res['tout'] = sx(ser_loop(loop, reg))
    except Opaque:
        res['tout'] = None
    seen, dup = set(), [False]

    def ids(n):
        if id(n) in seen:
            dup[0] = True
        seen.add(id(n))
        for c in n:
            ids(c)
    ids(loop)
    res['aliased'] = dup[0]          # the same Loop object occurs twice: the result is not a tree
    res['rdur'] = sx(core.to_frac(loop.duration))
    res['rdurs'] = sx(_preorder_durs(loop))
    res['rdepth'] = int(loop.depth())
    res['rbal'] = bool(loop.is_balanced())
    leaves = []

    def walk(n):
        if len(n) == 0:
            leaves.append(core.to_frac(n.waveform.duration) if n.waveform is not None else F(0))
        for c in n:
            walk(c)
    walk(loop)
    res['leaves'] = [str(x) for x in leaves]
    return res


def _preorder_durs(loop):
    out = []

    def walk(n):
        out.append(core.to_frac(n.duration))
        for c in n:
            walk(c)
    walk(loop)
    return out


def run_batch(cases):
    out = []
    for c in cases:
        try:
            out.append(run_case(c))
        except core.MachineryError as e:
            out.append({'machinery': str(e)})
    return out


def run_cases(ctx, cases):
    """all implementation calls happen in forked workers under a wall-clock limit"""
    if not cases:
        return []
    chunk = 400
    chunks = [cases[i:i + chunk] for i in range(0, len(cases), chunk)]
    results = []
    if ctx.quick or len(chunks) < 4:
        for ch in chunks:
            status, val = core.call_with_timeout(run_batch, (ch,), timeout=60 + CASE_TIMEOUT * 40)
            if status != 'ok':
                # a batch that hangs or dies: isolate the case
                val = []
                for c in ch:
                    s1, v1 = core.call_with_timeout(run_case, (c,), timeout=CASE_TIMEOUT * 5)
                    if s1 == 'ok':
                        val.append(v1)
                    elif s1 == 'timeout':
                        val.append({'status': 'timeout', 'tin': None})
                    else:
                        raise core.MachineryError('worker failed on %r: %r' % (c, v1))
            results.extend(val)
    else:
        with multiprocessing.get_context('fork').Pool(min(16, os.cpu_count() or 1)) as pool:
            for val in pool.map(run_batch, chunks):
                results.extend(val)
    return results


# ---------------------------------------------------------------------------------------------
# generators
# ---------------------------------------------------------------------------------------------

def shapes(n):
    """all ordered rooted trees with n nodes as nested lists of children"""
    if n == 1:
        return [[]]
    out = []
    # forests with n-1 nodes in total
    def forests(k):
        if k == 0:
            return [[]]
        res = []
        for first in range(1, k + 1):
            for t in shapes(first):
                for rest in forests(k - first):
                    res.append([t] + rest)
        return res
    return forests(n - 1)


def label(shape, reps, leafkeys, flags):
    """attach repetition counts (consumed in preorder), leaf kinds and (vol, meas) flags"""
    rep = next(reps)
    vol, meas = next(flags)
    if not shape:
        return [rep, vol, meas, next(leafkeys), []]
    return [rep, vol, meas, None, [label(c, reps, leafkeys, flags) for c in shape]]


def count_nodes(spec):
    return 1 + sum(count_nodes(c) for c in spec[4])


def fix_volatile(spec, seen=False):
    """at most one volatile count on every root-to-leaf path (two would hit PF-07/PF-08 in the merge)"""
    if spec[1] and seen:
        spec[1] = False
    for c in spec[4]:
        fix_volatile(c, seen or spec[1])
    return spec


TRIPLES_COMPAT = [(1, 1, 2), (4, 2, 2), (4, 4, 1), (2, 1, 1), (6, 2, 4), (3, 1, F(1, 2)), (1, 3, 2), (4, 1, F(4, 3)), (0, 2, 2)]
TRIPLES_ROLL = [(1, 16, 1), (2, 4, 1), (1, 2, 2), (3, 1, 4), (2, 8, F(1, 2)), (1, 3, 1), (2, 16, 4)]


def tree_valid(spec):
    """the `Loop` docstring's validity: counts >= 1, a leaf carries a waveform (`make_compatible` /
    `to_waveform` are only specified for such programs)"""
    if spec[0] < 1:
        return False
    if not spec[4]:
        return spec[3] is not None
    return all(tree_valid(c) for c in spec[4])


def ops_for(spec, rng, full):
    """the rewrites tried on one tree; `full` = every target depth / index, else a seeded subset"""
    nchild = len(spec[4])
    ops = [['flatten', d] for d in range(0, 4)] + [['flatten', -1]]
    ops += [['cleanup', True, True], ['cleanup', False, True], ['cleanup', True, False]]
    ops += [['encapsulate'], ['unroll-children'], ['merge'], ['split', None]]
    ops += [['unroll', i] for i in range(nchild + 1)]
    ops += [['split', i] for i in range(-nchild - 1, nchild + 1)]
    trip_c = TRIPLES_COMPAT if full else rng.sample(TRIPLES_COMPAT, 3)
    trip_r = TRIPLES_ROLL if full else rng.sample(TRIPLES_ROLL, 2)
    if tree_valid(spec):
        ops += [['compat', a, b, str(F(c))] for a, b, c in trip_c]
    ops += [['roll', a, b, str(F(c))] for a, b, c in trip_r]
    return ops


def exhaustive_trees(max_nodes, rng, stride_last=1):
    """every shape with <= max_nodes nodes x every assignment of counts {1,2,3}; leaf kinds and flags
    rotate deterministically so that all kinds occur"""
    out = []
    k = 0
    for n in range(1, max_nodes + 1):
        for shape in shapes(n):
            for reps in itertools.product((1, 2, 3), repeat=n):
                k += 1
                if n == max_nodes and stride_last > 1 and (k % stride_last) != 0:
                    continue
                keys = SMALL_KEYS[k % len(SMALL_KEYS):] + SMALL_KEYS[:k % len(SMALL_KEYS)]
                if k % 7 == 0:
                    keys = [CONST_LONG[(k // 7) % len(CONST_LONG)]] + keys
                plain = label(shape, iter(reps), itertools.cycle(keys), itertools.repeat((False, False)))
                out.append(plain)
                if k % 3 == 0:
                    fl = [(rng.random() < 0.25, rng.random() < 0.4) for _ in range(n)]
                    flagged = fix_volatile(label(shape, iter(reps), itertools.cycle(keys), iter(fl)))
                    if k % 6 == 0 and n > 1:
                        drop_one_leaf(flagged, rng)
                    out.append(flagged)
    return out


def drop_one_leaf(spec, rng):
    """make one leaf an empty loop (no waveform): input of `remove_empty_loops`"""
    leaves = []

    def walk(s):
        if not s[4]:
            leaves.append(s)
        for c in s[4]:
            walk(c)
    walk(spec)
    rng.choice(leaves)[3] = None


def random_tree(rng, max_nodes):
    n = rng.randint(2, max_nodes)
    budget = [n - 1]

    def node(depth):
        rep = rng.choice([1, 1, 1, 2, 2, 3, 4]) if depth else rng.choice([1, 1, 2])
        if depth and rng.random() < 0.04:
            rep = 0
        vol = rng.random() < 0.08
        meas = rng.random() < 0.15
        kids = []
        if budget[0] > 0 and depth < 6 and (depth == 0 or rng.random() < 0.55):
            k = min(budget[0], rng.choice([1, 1, 2, 2, 3, 4]))
            budget[0] -= k
            kids = [None] * k
            kids = [node(depth + 1) for _ in range(k)]
        if kids:
            return [rep, vol, meas, None, kids]
        key = rng.choice(SMALL_KEYS + SMALL_KEYS + CONST_LONG)
        if rng.random() < 0.03:
            key = None
        return [rep, vol, meas, key, []]
    spec = node(0)
    while budget[0] > 0 and spec[4]:
        # spend what is left as extra children of random inner nodes
        inner = []

        def walk(s):
            if s[4]:
                inner.append(s)
            for c in s[4]:
                walk(c)
        walk(spec)
        tgt = rng.choice(inner)
        tgt[4].insert(rng.randrange(len(tgt[4]) + 1), [rng.choice([1, 2, 3]), False, False, rng.choice(SMALL_KEYS), []])
        budget[0] -= 1
    return fix_volatile(spec)


def play_len(spec):
    body = 1 if not spec[4] else sum(play_len(c) for c in spec[4])
    return spec[0] * body


def random_template(rng, depth=0):
    r = rng.random()
    if depth >= 4 or r < 0.3:
        k = rng.random()
        m = rng.random() < 0.15
        if k < 0.35:
            return ['table', rng.choice([1, 2, 0.5]), rng.choice([0, 0.5, -1]), rng.choice([1, 0.25, -0.5]), m]
        if k < 0.6:
            return ['const', rng.choice([1, 0.5, 2, 8, 6]), rng.choice([0.5, -0.25, 0, 0, 1]), m]
        if k < 0.85:
            return ['func', rng.choice([1, 2]), rng.choice([0.5, 0.25, -0.125]), m]
        return ['idx', rng.choice([1, 2])]
    if r < 0.55:
        return ['seq', [random_template(rng, depth + 1) for _ in range(rng.choice([2, 2, 3]))], rng.random() < 0.15]
    if r < 0.75:
        return ['rep', rng.choice([1, 2, 2, 3]), random_template(rng, depth + 1), rng.random() < 0.15]
    if r < 0.85:
        return ['for', rng.choice([1, 2, 3]), random_template(rng, depth + 1)]
    return ['rev', random_template(rng, depth + 1)]


def has_rev(t):
    if t[0] == 'rev':
        return True
    if t[0] == 'seq':
        return any(has_rev(s) for s in t[1])
    if t[0] == 'rep':
        return has_rev(t[2])
    if t[0] == 'for':
        return has_rev(t[2])
    return False


# ---------------------------------------------------------------------------------------------
# comparison / judging
# ---------------------------------------------------------------------------------------------

def _obs_of(ans):
    """(obs (dur q) (depth n) (bal b) (leaves …) (play …)) -> dict"""
    d = {}
    for item in ans[1:]:
        d[item[0]] = item[1:]
    return d


def _norm_tree(t):
    """parsed `(L rep vol meas wf children)` with adjacent equal constants of each waveform merged
    (the implementation collapses them into one ConstantWaveform); only used for the
    `structural_agreement` statistic"""
    _, rep, vol, meas, wf, kids = t
    if wf != '-':
        out = []
        for i, d, c in wf:
            d = core.as_frac(d)
            if out and c == 'true' and out[-1][2] == 'true' and out[-1][0] == i:
                out[-1] = (i, out[-1][1] + d, c)
            else:
                out.append((i, d, c))
        wf = out
    return (rep, vol, meas, wf, [_norm_tree(k) for k in kids])


def check_cases(ctx, cases, family, judge_only=False):
    """run implementation + model on `cases`, judge, compare. Returns number of violations found."""
    found = 0
    import time as _time
    t0 = _time.time()
    results = run_cases(ctx, cases)
    t1 = _time.time()
    lines, idx = [], []
    for i, (case, res) in enumerate(zip(cases, results)):
        if 'machinery' in res:
            raise core.MachineryError('harness problem on %r: %s' % (case, res['machinery']))
        if 'skip' in res:
            ctx.count(family + ':skip:' + res['skip'])
            continue
        if res['status'] == 'timeout' or res.get('tin') is None:
            continue
        opl = sx(op_sx(case['op']))
        if case.get('pre'):
            lines.append('(c06 runp %s %s %s)' % (sx([op_sx(o) for o in case['pre']]), opl, res['tin']))
        else:
            lines.append('(c06 run %s %s)' % (opl, res['tin']))
        if res.get('tout') is not None:
            if res['status'] == 'ok':
                lines.append('(c06 judge %s %s (ok %s %s %d %s))' % (opl, res['tin'], res['tout'], res['rdurs'], res['rdepth'],
                                                                      'true' if res['rbal'] else 'false'))
            else:
                lines.append('(c06 judge %s %s (error %s %s))' % (opl, res['tin'], res['tout'], res['rdurs']))
        else:
            lines.append('(ping)')
        idx.append(i)
    answers = core.Lean.run(lines)
    t2 = _time.time()
    ctx.extra.setdefault('timing_s', {})[family] = {'implementation': round(t1 - t0, 1), 'lean_driver': round(t2 - t1, 1)}
    ans_of = {}
    for k, i in enumerate(idx):
        ans_of[i] = (answers[2 * k], answers[2 * k + 1], lines[2 * k])
    for i, (case, res) in enumerate(zip(cases, results)):
        if 'skip' in res:
            continue
        opname = case['op'][0]
        replay = dict(case, kind='case')
        if res['status'] == 'timeout':
            ctx.case(json.dumps(case, sort_keys=True, default=str))
            ctx.count(family + ':' + opname + ':timeout')
            found += 1
            ctx.count('violation:%s:%s:timeout' % (family, opname))
            ctx.violation('%s does not terminate within %.0f s on %s' % (opname, CASE_TIMEOUT, json.dumps(case['source'])[:300]),
                          dict(replay, outcome='timeout'))
            continue
        model, judged, line = ans_of[i]
        changed = res['status'] != 'ok' or res.get('tout') != res['tin']
        ctx.case(line, nontrivial=changed)
        ctx.count(family + ':' + opname + ':' + (res['status'] if res['status'] == 'ok' else 'error:' + str(res['err'])))
        # 1. sampled voltages
        if res.get('sampled_equal') is False and res.get('known_class') == 'PF-C06-3' and \
                any(k.get('finding') == 'PF-C06-3' for k in ctx.findings.for_property('C06')):
            ctx.count('known:PF-C06-3')
            ctx.known_finding('PF-C06-3', 'a waveform merged from pieces with non-binary durations plays the end value of the '
                              'previous piece at a grid sample lying exactly on the boundary of a nested, shifted piece (%s)'
                              % 'corpus witness: leaf 0.1 x2, leaf 0.1 x2, make_compatible(4, 1, 10): sample 3 is 0.8 instead of 0')
            continue
        if res.get('sampled_equal') is False:
            found += 1
            ctx.count('violation:%s:%s:sampled-output-changed' % (family, opname))
            ctx.violation('%s changed the sampled output (%s); status=%s; input %s' %
                          (sx(op_sx(case['op'])), res.get('sampled_diff'), res['status'], res['tin'][:300]),
                          dict(replay, outcome='sampled-output-changed', detail=res.get('sampled_diff')))
            continue
        if res.get('sampled_equal') is None:
            ctx.count(family + ':render-skipped')
        # 2. Lean judge on the implementation's result
        if judged[0] == 'judge':
            if judged[1] != 'ok':
                found += 1
                ctx.count('violation:%s:%s:%s' % (family, opname, judged[1]))
                ctx.violation('%s: judge says %s; status=%s; input %s; result %s' %
                              (sx(op_sx(case['op'])), judged[1], res['status'], res['tin'][:300], str(res.get('tout'))[:300]),
                              dict(replay, outcome=judged[1], tin=res['tin'], tout=res.get('tout'), reported=[res['rdur'], res['rdepth'], res['rbal']]))
                continue
        elif judged[0] == 'pong':
            ctx.count(family + ':opaque-result')
        else:
            raise core.MachineryError('judge answered %r for %s' % (judged, line[:300]))
        if judge_only:
            continue
        # 3. correspondence with the model
        if res.get('aliased'):
            ctx.drift('C06 %s: the result is not a tree (the same Loop object occurs more than once)' % opname,
                      line[:2000], 'aliased nodes', 'a tree')
            continue
        if model[0] == 'precondition':
            if case.get('pre'):
                ctx.count(family + ':' + opname + ':outside-model-domain-after-prefix')
                continue
            raise core.MachineryError('generator produced a case outside the modelled domain: %s' % line[:300])
        if model[0] == 'pre-error':
            ctx.drift('C06 %s: error behaviour of a pipeline prefix' % opname, line[:2000], 'prefix ok', 'prefix raised')
            continue
        if model[0] == 'err':
            raise core.MachineryError('model rejected %s: %r' % (line[:300], model))
        if model[0] == 'error':
            same = res['status'] == 'error' and res['err'] == model[1]
            if not same:
                ctx.drift('C06 %s: error behaviour' % opname, line[:2000], '%s %s' % (res['status'], res['err']), sx(model))
            continue
        # model ok
        if res['status'] != 'ok':
            ctx.drift('C06 %s: error behaviour' % opname, line[:2000], 'error %s' % res['err'], 'ok')
            continue
        mobs = _obs_of(model[2])
        mleaves = [core.as_frac(x) for x in mobs['leaves']]
        impl_obs = (res['rdur'], res['rdepth'], res['rbal'], sorted(F(x) for x in res['leaves']))
        model_obs = (sx(core.as_frac(mobs['dur'][0])), int(mobs['depth'][0]), mobs['bal'][0] == 'true', sorted(mleaves))
        if impl_obs != model_obs:
            ctx.drift('C06 %s: observables (duration, depth, balance, leaf lengths)' % opname, line[:2000],
                      repr(impl_obs)[:500], repr(model_obs)[:500])
            continue
        if res.get('tout') is not None:
            same = res['tout'] == sx(model[1]) or _norm_tree(core.parse_sx(res['tout'])) == _norm_tree(model[1])
            ctx.count('structural_agreement' if same else 'structural_difference')
    return found


# ---------------------------------------------------------------------------------------------
# small pure function: smallest_factor_ge
# ---------------------------------------------------------------------------------------------

def check_sfg(ctx, bound):
    from qupulse.utils.numeric import smallest_factor_ge
    pairs = [(n, m) for n in range(0, bound + 1) for m in range(0, bound + 2)]
    rng = ctx.fork('sfg')
    pairs += [(rng.randrange(1, 10 ** 6), rng.randrange(1, 2000)) for _ in range(ctx.n(300, 3000))]
    lines, impl = [], []
    for n, m in pairs:
        try:
            impl.append(('ok', int(smallest_factor_ge(n, m))))
        except Exception as exc:  # noqa
            impl.append(('error', ERRMAP.get(type(exc).__name__, 'other:' + type(exc).__name__)))
        lines.append('(c06 sfg %d %d)' % (n, m))
    ctx.exhaustive_spaces.append('smallest_factor_ge: all 0 <= n <= %d, 0 <= m <= %d' % (bound, bound + 1))
    for (n, m), r, a, line in zip(pairs, impl, core.Lean.run(lines), lines):
        ctx.case(line, nontrivial=r[0] == 'ok')
        ctx.count('sfg:' + r[0])
        if r[0] == 'ok':
            f = r[1]
            # judge: smallest divisor >= m (independent restatement)
            good = f >= m and n % f == 0 and not any(n % g == 0 for g in range(max(m, 1), f))
            if not good:
                ctx.violation('smallest_factor_ge(%d, %d) = %d is not the smallest divisor >= %d' % (n, m, f, m),
                              {'kind': 'sfg', 'n': n, 'm': m})
                continue
        want = ('ok', int(a[1])) if a[0] == 'ok' else ('error', a[1])
        if want != r:
            ctx.drift('C06 smallest_factor_ge', line, repr(r), repr(want))


# ---------------------------------------------------------------------------------------------
# the run
# ---------------------------------------------------------------------------------------------

def family_exhaustive(ctx):
    rng = ctx.fork('exhaustive')
    quick = ctx.quick
    trees = exhaustive_trees(5, rng, stride_last=60 if quick else 1)
    cases = []
    for t in trees:
        for op in ops_for(t, rng, full=not quick or count_nodes(t) <= 3):
            cases.append({'source': {'tree': t}, 'op': op})
    ctx.exhaustive_spaces.append(
        'Loop trees: every shape with <= %d nodes x counts {1,2,3} (leaf kinds / flags rotating), '
        'x flatten depth -1..3, cleanup variants, every unroll / split index, encapsulate, unroll_children, merge, '
        '(min_len, quantum, rate) triples%s' % (5 if not quick else 4, '' if not quick else '; 5-node trees: every 60th'))
    return cases


def family_random(ctx):
    rng = ctx.fork('random')
    cases = []
    n = ctx.n(160, 3000)
    while n > 0:
        t = random_tree(rng, 40)
        if play_len(t) > 3000:
            continue
        n -= 1
        ops = ops_for(t, rng, full=False)
        for op in rng.sample(ops, min(len(ops), 9)) + [['flatten', rng.choice([1, 2])]]:
            cases.append({'source': {'tree': t}, 'op': op})
    return cases


def family_templates(ctx):
    rng = ctx.fork('templates')
    cases = []
    n = ctx.n(90, 2200)
    nrev = 0
    while n > 0:
        t = random_template(rng)
        if rng.random() < 0.5 and not has_rev(t):
            t = ['rev', t] if rng.random() < 0.5 else ['seq', [t, ['rev', random_template(rng, 2)]], False]
        n -= 1
        nrev += has_rev(t)
        src = {'template': t, 'params': {'i': 1}}
        ops = [['flatten', d] for d in (0, 1, 2, 3)] + [['cleanup', True, True], ['unroll-children'], ['split', None],
                                                         ['encapsulate'], ['unroll', 0], ['unroll', 1], ['merge']]
        ops += [['compat', a, b, str(F(c))] for a, b, c in rng.sample(TRIPLES_COMPAT, 2)]
        ops += [['roll', a, b, str(F(c))] for a, b, c in rng.sample(TRIPLES_ROLL, 2)]
        for op in ops:
            cases.append({'source': src, 'op': op})
    ctx.count('templates:with-time-reversal', nrev)
    return cases


def family_markers(ctx):
    """marker-like channels (exactly 0, then one other level) in leaves that `make_compatible` merges:
    every sequence of 2..3 leaves over MARKER_KEYS x counts {1,2} on the first leaf, flat and nested once"""
    rng = ctx.fork('markers')
    trees = []
    for n in (2, 3):
        for keys in itertools.product(MARKER_KEYS, repeat=n):
            for r0 in (1, 2):
                leaves = [[r0 if i == 0 else 1, False, False, k, []] for i, k in enumerate(keys)]
                trees.append([1, False, False, None, leaves])
                if n == 3:
                    trees.append([2, False, False, None, [leaves[0], [1, False, False, None, leaves[1:]]]])
    if ctx.quick:
        trees = trees[::3] + rng.sample(trees, 40)
    cases = []
    for t in trees:
        for a, b, c in ((4, 1, 2), (6, 2, 4), (16, 1, 4), (3, 1, 1)):
            cases.append({'source': {'tree': t}, 'op': ['compat', a, b, str(F(c))]})
        cases.append({'source': {'tree': t}, 'op': ['flatten', 1]})
    ctx.exhaustive_spaces.append('marker leaves: sequences of 2..3 leaves over %s, merged by make_compatible%s'
                                 % (MARKER_KEYS, ' (every third + 40 random)' if ctx.quick else ''))
    return cases


PIPELINES = [
    [['unroll-children'], ['split', None]],
    [['unroll-children'], ['split', 0]],
    [['unroll-children'], ['unroll', 0]],
    [['unroll-children'], ['unroll', 1]],
    [['unroll-children'], ['flatten', 1]],
    [['unroll-children'], ['cleanup', True, True]],
    [['unroll-children'], ['compat', 4, 1, '2']],
    [['unroll-children'], ['split', None], ['split', None]],
    [['unroll-children'], ['split', None], ['flatten', 1]],
    [['unroll-children'], ['roll', 1, 2, '2'], ['unroll-children']],
    [['split', None], ['unroll-children'], ['split', None]],
    [['split', None], ['split', None], ['cleanup', True, True]],
    [['encapsulate'], ['unroll-children'], ['split', 0]],
    [['encapsulate'], ['flatten', 0]],
    [['unroll', 0], ['split', None]],
    [['unroll', 0], ['flatten', 2], ['cleanup', True, True]],
    [['cleanup', True, True], ['flatten', 1], ['compat', 4, 2, '2']],
    [['flatten', 2], ['unroll-children'], ['split', None]],
    [['flatten', 1], ['roll', 1, 2, '2'], ['compat', 4, 2, '2']],
    [['roll', 1, 16, '1'], ['compat', 4, 4, '1'], ['flatten', 1]],
    [['compat', 4, 1, '2'], ['unroll-children'], ['split', None]],
]


def pipeline_cases(tree, pipes):
    """one case per step >= 2 of every pipeline (step 1 alone is a single-rewrite case of the other families);
    play / duration are compared with the ORIGINAL program after every step"""
    out = []
    valid = tree_valid(tree)
    for pipe in pipes:
        if not valid and any(o[0] == 'compat' for o in pipe):
            continue
        for k in range(1, len(pipe)):
            out.append({'source': {'tree': tree}, 'pre': pipe[:k], 'op': pipe[k]})
    return out


def family_pipelines(ctx):
    """sequences of 2-3 rewrites applied to the same program object (what the hardware back-ends do:
    Tabor runs unroll_children -> split_one_child, flatten -> make_compatible -> roll ...)"""
    rng = ctx.fork('pipelines')
    trees = exhaustive_trees(4, rng)
    if ctx.quick:
        trees = [t for i, t in enumerate(trees) if i % 4 == 0 or (t[0] >= 2 and any(c[0] >= 2 for c in t[4]) and i % 2 == 0)]
    cases = []
    for t in trees:
        pipes = PIPELINES if not ctx.quick else PIPELINES[:3] + rng.sample(PIPELINES[3:], 4)
        cases += pipeline_cases(t, pipes)
    n = ctx.n(40, 800)
    while n > 0:
        t = random_tree(rng, 14)
        if play_len(t) > 1500:
            continue
        n -= 1
        ops = [o for o in ops_for(t, rng, full=False)]
        for _ in range(3):
            pipe = [rng.choice(ops) for _ in range(rng.choice([2, 3]))]
            cases += pipeline_cases(t, [pipe])
    ctx.exhaustive_spaces.append('pipelines: %d fixed sequences of 2-3 rewrites on every tree with <= 4 nodes x counts {1,2,3}%s'
                                 % (len(PIPELINES), ' (quick: a quarter of the trees, 7 sequences each)' if ctx.quick else ''))
    return cases


def family_decimal(ctx):
    """leaf durations that are no binary fractions (1/10, 3/10, 7/10, 1/3, 1/6; exact as TimeType), repeated
    leaves that make_compatible merges into one Repetition/SequenceWaveform, output compared on the driver's grid
    k / rate (integral rate), values up to 2^-30 because local sample times differ by rounding"""
    cases = []
    combos = [('d01', 10), ('d01', 20), ('d01', 160), ('d03', 10), ('d03', 40), ('d07', 10), ('d07', 20),
              ('d13', 3), ('d13', 12), ('d13', 48), ('d16', 6), ('d16', 24)]
    for key, rate in combos:
        s = F(DECIMAL_KEYS[key][0]) * rate
        assert s.denominator == 1
        s = int(s)
        for r in (4, 5, 6, 7, 12):
            trees = [[r, False, False, key, []],
                     [1, False, False, None, [[r, False, False, key, []]]],
                     [2, False, False, None, [[r, False, False, key, []], [1, False, False, key, []]]],
                     [1, False, False, None, [[r, False, False, None, [[1, False, False, key, []]]], [2, False, False, key, []]]]]
            for t in trees:
                for op in (['compat', s * r, 1, str(rate)], ['compat', s * 2, s, str(rate)], ['compat', s + 1, 1, str(rate)],
                           ['flatten', 1], ['unroll-children']):
                    cases.append({'source': {'tree': t}, 'op': op, 'rate': rate, 'tol': True})
    mixes = [(['d01', 'd03', 'd07'], 10), (['d13', 'd16'], 6), (['d01', 'd07', 'd03'], 20)]
    for keys, rate in mixes:
        for r in (4, 6):
            t = [r, False, False, None, [[2, False, False, k, []] for k in keys]]
            for a, b in ((1000, 1), (8, 1), (3, 1)):
                cases.append({'source': {'tree': t}, 'op': ['compat', a, b, str(rate)], 'rate': rate, 'tol': True})
            cases.append({'source': {'tree': [1, False, False, None, [t]]}, 'op': ['compat', 8, 1, str(rate)], 'rate': rate, 'tol': True})
    ctx.exhaustive_spaces.append('decimal durations: %d (leaf, rate) combinations x counts {4,5,6,7,12} x 4 shapes x 5 rewrites' % len(combos))
    return cases


OFFGRID_KEYS = ['rramp', 'c05a', 'ramp2', 'tab1', 'cm', 'q14', 'q34', 'fun1', 'mk0']


def family_offgrid(ctx):
    """leaves whose durations are NOT whole numbers of samples (1.5, 0.5, 0.25, 0.75 samples at rate 1; leaves that
    lie entirely between two neighbouring sample points), merged by make_compatible at that rate; the reference
    is rendered leaf by leaf from the original leaves with exact offsets"""
    rng = ctx.fork('offgrid')
    seqs = [list(k) for n in (3, 4) for k in itertools.product(OFFGRID_KEYS, repeat=n)]
    if ctx.quick:
        seqs = rng.sample(seqs, 260)
    cases = []
    for keys in seqs:
        for rate in (1, 2):
            total = sum((core.to_frac(palette(k).duration) for k in keys), F(0)) * rate
            if total.denominator != 1 or all((core.to_frac(palette(k).duration) * rate).denominator == 1 for k in keys):
                continue
            r0 = rng.choice([1, 1, 2])
            flat = [r0, False, False, None, [[1, False, False, k, []] for k in keys]]
            nested = [1, False, False, None, [[1, False, False, keys[0], []],
                                              [r0, False, False, None, [[1, False, False, k, []] for k in keys[1:]]]]]
            for t in (flat, nested):
                if (total * t[0]).denominator != 1:
                    continue
                for a in (int(total), 2, int(total) * 4):
                    cases.append({'source': {'tree': t}, 'op': ['compat', a, 1, str(rate)], 'rate': rate})
                cases.append({'source': {'tree': t}, 'op': ['flatten', 1], 'rate': rate})
    ctx.exhaustive_spaces.append('off-grid leaves: sequences of 3..4 leaves over %s at rates 1, 2%s'
                                 % (OFFGRID_KEYS, ' (260 random sequences)' if ctx.quick else ''))
    return cases


def family_malformed(ctx):
    """inputs outside the happy path: bad indices, leaves as targets, quantum 0, empty loops everywhere"""
    rng = ctx.fork('malformed')
    cases = []
    for _ in range(ctx.n(60, 600)):
        t = random_tree(rng, 8)
        if rng.random() < 0.5 and count_nodes(t) > 1:
            drop_one_leaf(t, rng)
        ops = [['unroll', rng.randrange(0, 12)], ['split', rng.randrange(-12, 12)], ['merge'], ['unroll-children'],
               ['roll', 1, 5, '1/3'], ['cleanup', True, True], ['flatten', rng.randrange(-3, 7)]]
        if tree_valid(t):
            ops += [['compat', rng.choice([0, 1, 1000]), 0, '1'], ['compat', 1000, 1, '1'], ['compat', 1, 1, '1/3']]
        for op in ops:
            cases.append({'source': {'tree': t}, 'op': op})
    leaf = [3, False, False, 'ramp2', []]
    for op in (['unroll-children'], ['merge'], ['split', None], ['split', 0], ['unroll', 0], ['flatten', 2], ['cleanup', True, True]):
        cases.append({'source': {'tree': leaf}, 'op': op})
    return cases


def run(ctx: core.Ctx):
    ctx.rule = ('real Loop trees with real Table/Constant/Function/Reversed/MultiChannel/Sequence waveforms on dyadic values: '
                '(1) every tree shape with <= 5 nodes x repetition counts {1,2,3} x every rewrite and parameter '
                '(quick: <= 4 nodes complete, every 60th 5-node tree), (2) random trees with <= 40 nodes incl. volatile '
                'counts, measurements, empty loops, already merged leaves, (3) programs created by real pulse templates '
                '(Table/Constant/Function/Sequence/Repetition/ForLoop/TimeReversal), (4) a malformed stream (bad indices, '
                'leaf targets, quantum 0, non-integral sample counts). Non-trivial = the rewrite changed the tree or raised; '
                'distinct by canonical request line')
    ctx.assumptions = [
        'leaf waveform sampling (`Waveform.get_sampled` of Table/Constant/Function/Reversed/MultiChannel/Sequence/Repetition '
        'waveforms) is C08\'s topic; here it is only used to compare a program with its rewritten self',
        'child positions (`Node.__parent_index`) are the real positions whenever a rewrite starts (C09); '
        'at most one volatile repetition count per root-to-leaf path (two meet PF-07/PF-08 in `_merge_single_child`)',
    ]
    for rec in ctx.corpus():
        replay(ctx, rec, from_corpus=True)
        ctx.corpus_replayed += 1
    check_sfg(ctx, ctx.n(40, 120))
    fams = [('exhaustive', family_exhaustive), ('markers', family_markers), ('pipelines', family_pipelines),
            ('decimal', family_decimal), ('offgrid', family_offgrid), ('random', family_random), ('templates', family_templates),
            ('malformed', family_malformed)]
    for name, fam in fams:
        cases = fam(ctx)
        check_cases(ctx, cases, name)
    if ctx.drifts and not ctx.violations:
        failing_input_search(ctx)


def failing_input_search(ctx):
    """The model no longer predicts the implementation somewhere.  Look for an input on which the
    implementation's own output violates the property (judged, not compared with the model): the
    complete <= 5-node space for the rewrites that drifted (every parameter), plus fresh random
    trees and template programs from a different seed."""
    names = set()
    for d in ctx.drifts:
        for op in ('flatten', 'cleanup', 'encapsulate', 'unroll-children', 'unroll', 'merge', 'split', 'compat', 'roll'):
            if ('C06 %s:' % op) in d['correspondence']:
                names.add(op)
    sub = core.Ctx(ctx.pid, ctx.tier, ctx.seed + 7919)
    sub.violations = ctx.violations
    rng = sub.fork('search')
    extra = []
    if names:
        for t in exhaustive_trees(5, rng, stride_last=3 if ctx.quick else 1):
            for op in ops_for(t, rng, full=True):
                if op[0] in names:
                    extra.append({'source': {'tree': t}, 'op': op})
    extra += [c for c in family_random(sub) + family_templates(sub) if not names or c['op'][0] in names]
    ctx.extra['failing_input_search_cases'] = len(extra)
    check_cases_into(ctx, sub, extra)


def check_cases_into(ctx, sub, cases):
    found = check_cases(sub, cases, 'search', judge_only=True)
    ctx.evaluations += sub.evaluations
    ctx.distinct |= sub.distinct
    for k, v in sub.counters.items():
        ctx.counters[k] = ctx.counters.get(k, 0) + v
    return found


def replay(ctx: core.Ctx, rec: dict, from_corpus: bool = False) -> bool:
    kind = rec.get('kind')
    before = len(ctx.violations)
    if kind == 'case':
        case = {k: rec[k] for k in ('source', 'op', 'pre', 'rate', 'tol') if k in rec}
        check_cases(ctx, [case], 'corpus' if from_corpus else 'replay')
    elif kind == 'sfg':
        check_sfg(ctx, 0)
    else:
        raise core.MachineryError('unknown replay record kind %r' % kind)
    return len(ctx.violations) == before
