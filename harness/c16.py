"""C16 — the Tabor device program plays the quantised source program.

For every generated *real* source program (``Loop`` trees with Constant/Table/Function waveforms on two
voltage and two marker channels, built directly or through pulse templates) and every configuration
(channel / marker assignment incl. ``None``, amplitudes, offsets, voltage transformations, device
sequence-length limits, sequencing mode) the real ``TaborProgram`` is built and

* **judge** (decisive): its binary segments (``get_as_binary()``), sequencer tables and advanced sequencer
  table are sent to the Lean driver, which replays them with the independent table player ``QP.C16.playAdv``,
  unpacks the binary words itself and compares, sample for sample, with the codes/markers expected from the
  *source* program (sampled here through the real waveforms' ``get_sampled`` at ``k / rate``, transformed,
  sent as exact dyadic rationals and quantised in Lean with round-half-even); it also checks the device
  limits on everything emitted;
* **correspondence** (ties the theorems in ``QP.Props.C16`` to the code): the Lean model
  ``initProgram / chooseMode / setupAdvanced / parse`` is run on the same program; outcome class (ok or the
  error class) must agree (otherwise drift), the table layout is compared up to a consistent renaming of
  elements and only *recorded* (a different but equivalent layout is no alarm).
"""
from __future__ import annotations

import fractions
import hashlib
import itertools
import json
import math
import os
import sys
import types
import warnings

import core
from core import sx

F = fractions.Fraction

# ---------------------------------------------------------------------------------------------
# imports from the repository (tabor_control is not installed: stub it, as the drivers' tests do)
# ---------------------------------------------------------------------------------------------

_Q = None


def _q():
    global _Q
    if _Q is not None:
        return _Q
    for name in ('tabor_control', 'tabor_control.device'):
        if name not in sys.modules:
            mod = types.ModuleType(name)
            mod.TEWXAwg = type('TEWXAwg', (), {})
            sys.modules[name] = mod
    import numpy as np
    from qupulse._program import tabor as tb
    from qupulse.program.loop import Loop, make_compatible
    from qupulse.program import waveforms as wfm
    from qupulse.program.volatile import VolatileRepetitionCount
    from qupulse.parameter_scope import DictScope
    from qupulse.expressions import ExpressionScalar
    from qupulse.utils.types import TimeType, FrozenDict
    from qupulse.pulses import interpolation as ip
    from qupulse import pulses
    ns = types.SimpleNamespace(np=np, tb=tb, Loop=Loop, make_compatible=make_compatible, wfm=wfm,
                               VolatileRepetitionCount=VolatileRepetitionCount, DictScope=DictScope,
                               ExpressionScalar=ExpressionScalar, TimeType=TimeType, ip=ip, pulses=pulses,
                               FrozenDict=FrozenDict)
    _Q = ns
    return ns


# ---------------------------------------------------------------------------------------------
# specs: everything a case consists of is plain JSON so that replay files are self-contained
# ---------------------------------------------------------------------------------------------

TRAFOS = {
    'id': lambda x: x,
    'half': lambda x: 0.5 * x,
    'neg': lambda x: -x,
    'shift': lambda x: x + 0.03125,
    'affine': lambda x: 0.75 * x - 0.015625,
    'third': lambda x: x / 3.0,
    'sq': lambda x: 2.0 * x * x - 0.125,
    'big': lambda x: 8.0 * x,          # leaves the output range: the program has to be rejected
}

RATES = [(1, 1), (2, 1), (1, 2), (4, 1), (1, 4), (3, 2), (3, 4), (5, 2), (12, 5)]
VOLT = ['A', 'B']
MARK = ['M', 'N']


def rate_quantum(rate):
    """smallest sample count step such that n/rate is an integer number of time units and 16 | n"""
    num, den = rate
    return _lcm(16, num)


def _lcm(a, b):
    return a * b // math.gcd(a, b)


def lengths_for(rate, rng, malformed=False):
    q = rate_quantum(rate)
    lo = (192 + q - 1) // q
    n = q * rng.randrange(lo, lo + max(2, 160 // q))
    if malformed:
        kind = rng.choice(['short', 'odd', 'fraction'])
        num, den = rate
        if kind == 'short':
            n = _lcm(16, num) * rng.randrange(1, max(2, 176 // _lcm(16, num) + 1))
            if n >= 192:
                n = _lcm(16, num)
        elif kind == 'odd':
            n = 192 + num * rng.choice([1, 2, 3, 5, 7, 9])
            if n % 16 == 0:
                n += num
        else:
            # a sample count that is no integer, on either side of a *legal* segment length
            legal = q * rng.randrange(lo, lo + max(2, 160 // q))
            return ('fraction', legal, rng.choice(FRACTIONS))
    return n


# fractional parts of a sample count (as exact fractions): both sides of the integers, far from and close to
# them, inside (1e-11) and outside (1e-9) the 1e-10 tolerance of get_waveform_length
FRACTIONS = [[1, 10], [2, 5], [3, 5], [9, 10], [1, 3], [2, 3], [1, 2], [7, 10], [99, 100], [1, 100],
             [1, 10 ** 9], [10 ** 9 - 1, 10 ** 9], [1, 10 ** 11], [10 ** 11 - 1, 10 ** 11]]


def fractional_duration(rate, legal, frac):
    """duration (time units, exact fraction) of `legal + f` samples for f < 1/2 and `legal - 1 + f` samples for
    f >= 1/2: the nearest integer sample count is the legal segment length `legal`"""
    f = F(frac[0], frac[1])
    samples = legal + f if f < F(1, 2) else legal - 1 + f
    d = samples * F(rate[1], rate[0])
    return [d.numerator, d.denominator]


def gen_channel_spec(rng, n, rate, marker, vmax):
    """one channel of one waveform; time unit: ns, n samples at `rate` samples/ns"""
    dur = F(n * rate[1], rate[0])
    kind = rng.random()
    grid = 1024

    def volt():
        if marker:
            return rng.choice([0.0, 0.0, 1.0, 1.0, 0.5, -1.0])
        return rng.randrange(-int(vmax * grid), int(vmax * grid) + 1) / grid

    if kind < 0.35 or n < 4:
        return ['const', volt()]
    if kind < 0.8 or marker:
        # table with breakpoints on the sample grid, at half samples and off the grid
        k = rng.randrange(1, 5)
        times = sorted({rng.choice([F(rng.randrange(1, 2 * n), 2) * F(rate[1], rate[0]),
                                    F(rng.randrange(1, n)) * F(rate[1], rate[0])]) for _ in range(k)})
        times = [t for t in times if 0 < t < dur]
        entries = [[0.0, volt(), 'hold']]
        for t in times:
            entries.append([float(t), volt(), rng.choice(['hold', 'hold', 'linear', 'jump'] if not marker
                                                          else ['hold', 'jump'])])
        entries.append([float(dur), volt(), rng.choice(['hold', 'linear', 'jump'] if not marker else ['hold', 'jump'])])
        return ['table', entries]
    a = rng.randrange(1, int(vmax * grid)) / grid
    expr = rng.choice(['{a}*sin(t/{p})', '{a}*cos(t/{p})', '{a}*t/{d}', '{a}*exp(-t/{p})', '{a}*(1 - 2*t/{d})',
                       '{a}*sin(t/{p})**2'])
    return ['func', expr.format(a=repr(a), p=repr(float(rng.choice([3, 7, 20, 50, 111]))), d=repr(float(dur)))]


def gen_wf_spec(rng, rate, vmax, malformed=False, extra=False):
    n = lengths_for(rate, rng, malformed)
    frac = None
    if isinstance(n, tuple):
        _tag, n, frac = n
    spec = {'n': n, 'ch': {}}
    if frac:
        spec['dur'] = fractional_duration(rate, n, frac)      # not an integer number of samples
    for ch in VOLT:
        spec['ch'][ch] = gen_channel_spec(rng, n, rate, False, vmax)
    for ch in MARK:
        spec['ch'][ch] = gen_channel_spec(rng, n, rate, True, vmax)
    if extra:
        spec['ch']['X'] = gen_channel_spec(rng, n, rate, False, vmax)
    return spec


def make_twin(rng, spec, rate):
    """a different waveform (unequal as a qupulse Waveform) that samples to the same 14-bit codes and markers:
    a voltage shift far below one code, or a constant written as a two-entry table"""
    twin = json.loads(json.dumps(spec))
    dur = float(F(spec['n'] * rate[1], rate[0]))
    ch = rng.choice(VOLT)
    cs = twin['ch'][ch]
    eps = 2.0 ** -30
    if cs[0] == 'const' and rng.random() < 0.5:
        twin['ch'][ch] = ['rawtable', [[0.0, cs[1], 'hold'], [dur, cs[1], 'hold']]]
    elif cs[0] == 'const':
        twin['ch'][ch] = ['const', cs[1] + eps]
    elif cs[0] in ('table', 'rawtable'):
        twin['ch'][ch] = [cs[0], [[t, v + eps, i] for t, v, i in cs[1]]]
    else:
        twin['ch'][ch] = ['func', '(%s) + %r' % (cs[1], eps)]
    return twin


def gen_pool(rng, rate, vmax, size, malformed=False):
    pool = []
    for i in range(size):
        r = rng.random()
        if pool and r < 0.12 and 'dur' not in pool[-1]:
            pool.append(make_twin(rng, rng.choice([p for p in pool if 'dur' not in p]), rate))
            continue
        r = rng.random()
        if pool and r < 0.25:
            # sibling: same data on some channels, different on others (de-duplication must look at everything)
            base = json.loads(json.dumps(rng.choice(pool)))
            for ch in rng.sample(list(base['ch']), rng.randrange(1, 3)):
                base['ch'][ch] = gen_channel_spec(rng, base['n'], rate, ch in MARK, vmax)
            pool.append(base)
        elif pool and r < 0.35:
            pool.append(json.loads(json.dumps(rng.choice(pool))))      # equal but distinct object
        else:
            pool.append(gen_wf_spec(rng, rate, vmax, malformed=malformed and i == 0, extra=rng.random() < 0.15))
    return pool


def gen_vars(rng):
    """volatile variables of a case: [name, scope index, value]; the same name may live in two scopes (equal
    volatile property, different scope) and one scope holds several names"""
    out = []
    for scope in (0, 1):
        for name in ('n', 'm'):
            if rng.random() < 0.75:
                out.append([name, scope, rng.choice([1, 1, 2, 2, 3, 4])])
    return out or [['n', 0, 2]]


def gen_tree(rng, depth, npool, budget, vol_p=0.0, vars_=None, root=False):
    """['w', rep, wf, vol] | ['l', rep, vol, children]; vol: False | True (a private scope) | index into the
    case's volatile variables (the count is then that variable's value)"""
    def count_vol():
        c = rng.choice([1, 1, 1, 2, 2, 3, 4, 5, 7])
        if vol_p and rng.random() < (0.4 if root else vol_p):
            if vars_ and rng.random() < 0.8:
                j = rng.randrange(len(vars_))
                return vars_[j][2], j
            return c, True
        return c, False

    if depth == 0 or (depth < 3 and rng.random() < 0.25):
        c, v = count_vol()
        return ['w', c, rng.randrange(npool), v]
    k = rng.choice([1, 1, 2, 2, 3, 3, 4, 5, 6])
    children = [gen_tree(rng, depth - 1 if rng.random() < 0.8 else max(0, depth - 2), npool, budget, vol_p, vars_)
                for _ in range(k)]
    c, v = count_vol()
    return ['l', c, v, children]


def tree_play_len(t):
    if t[0] == 'w':
        return t[1]
    return t[1] * sum(tree_play_len(c) for c in t[3])


def gen_pt_tree(rng, depth, npool):
    """mini language for pulse templates: ['a', wf] | ['seq', [..]] | ['rep', n, body] | ['for', n, body]"""
    if depth == 0 or rng.random() < 0.2:
        return ['a', rng.randrange(npool)]
    r = rng.random()
    if r < 0.45:
        return ['seq', [gen_pt_tree(rng, depth - 1, npool) for _ in range(rng.randrange(1, 5))]]
    if r < 0.8:
        return ['rep', rng.choice([1, 2, 2, 3, 4, 6]), gen_pt_tree(rng, depth - 1, npool)]
    return ['for', rng.choice([1, 2, 3]), gen_pt_tree(rng, depth - 1, npool)]


# real identifiers behind the symbolic names: integers (0 included) and mixtures of integers and strings
ID_MAPS = [{'A': 0, 'B': 1, 'M': 2, 'N': 3, 'X': 4}, {'A': 1, 'B': 0, 'M': 3, 'N': 2, 'X': 9},
           {'A': 0, 'B': 'B', 'M': 'M', 'N': 5, 'X': 'X'}, {'A': 'A', 'B': 7, 'M': 0, 'N': 'N', 'X': 1},
           {'A': 'ch_a', 'B': 0, 'M': 'm', 'N': 'n', 'X': 'x'}]
LIMITS = [(3, 16384), (1, 16384), (3, 4), (3, 5), (2, 4), (3, 8), (4, 6), (5, 12), (1, 3), (3, 3), (2, 2), (6, 7)]
CHANNELS = [('A', 'B'), ('B', 'A'), ('A', None), (None, 'B'), (None, None), ('A', 'A'), ('B', None)]
MARKERS = [('M', 'N'), ('N', 'M'), ('M', None), (None, 'N'), (None, None), ('M', 'M'), ('A', 'M')]


def gen_config(rng, malformed=False):
    ch = rng.choice(CHANNELS) if rng.random() < 0.6 else ('A', 'B')
    mk = rng.choice(MARKERS) if rng.random() < 0.6 else ('M', 'N')
    if ch == (None, None) and mk == (None, None):
        mk = ('M', None)
    tr = [rng.choice(['id', 'id', 'half', 'neg', 'shift', 'affine', 'third', 'sq']) for _ in range(2)]
    if malformed:
        tr[rng.randrange(2)] = 'big'
    return {
        'channels': list(ch), 'markers': list(mk),
        'amps': [rng.choice([0.5, 1.0, 2.0, 0.75, 1.3]) for _ in range(2)],
        'offs': [rng.choice([0.0, 0.0, 0.0625, -0.125, 0.03, -0.03, 0.125]) for _ in range(2)],
        'trafos': tr,
        'limits': list(rng.choice(LIMITS)),
        'mode': rng.choice(['auto'] * 8 + ['advanced', 'single']),
    }


# ---------------------------------------------------------------------------------------------
# building real objects from specs
# ---------------------------------------------------------------------------------------------

def build_channel(q, ch, cspec, dur_tt):
    kind = cspec[0]
    if kind == 'const':
        return q.wfm.ConstantWaveform(dur_tt, cspec[1], ch)
    if kind in ('table', 'rawtable'):
        interp = {'hold': q.ip.HoldInterpolationStrategy(), 'linear': q.ip.LinearInterpolationStrategy(),
                  'jump': q.ip.JumpInterpolationStrategy()}
        entries = [q.wfm.TableWaveformEntry(t, v, interp[i]) for t, v, i in cspec[1]]
        if kind == 'rawtable':
            # the plain constructor: no folding of a constant table into a ConstantWaveform
            return q.wfm.TableWaveform(ch, tuple(entries))
        return q.wfm.TableWaveform.from_table(ch, entries)
    if kind == 'func':
        return q.wfm.FunctionWaveform.from_expression(q.ExpressionScalar(cspec[1]), dur_tt, ch)
    raise core.MachineryError('bad channel spec %r' % (cspec,))


def wf_duration(q, spec, rate):
    if 'dur' in spec:
        return q.TimeType.from_fraction(spec['dur'][0], spec['dur'][1])
    return q.TimeType.from_fraction(spec['n'] * rate[1], rate[0])


def real_id(ids, ch):
    """the symbolic channel names of a case ('A', 'B', 'M', 'N', 'X') may stand for other identifiers: qupulse's
    ChannelID is str | int, and the integer 0 is a perfectly valid one"""
    if ch is None:
        return None
    return (ids or {}).get(ch, ch)


def build_wf(q, spec, rate, ids=None):
    dur = wf_duration(q, spec, rate)
    if 'dur' in spec:
        # only constants can carry an off-grid duration consistently
        subs = [q.wfm.ConstantWaveform(dur, 0.125, real_id(ids, ch)) for ch in spec['ch']]
    else:
        subs = [build_channel(q, real_id(ids, ch), cs, dur) for ch, cs in spec['ch'].items()]
    return q.wfm.MultiChannelWaveform.from_parallel(subs)


def build_channel_pt(q, ch, cspec, dur):
    P = q.pulses
    kind = cspec[0]
    if kind == 'const':
        return P.ConstantPT(dur, {ch: cspec[1]})
    if kind in ('table', 'rawtable'):
        return P.TablePT({ch: [(t, v, i) for t, v, i in cspec[1]]})
    return P.FunctionPT(cspec[1], dur, channel=ch)


def build_pt(q, t, pool, rate, counter, loopvar=None, ids=None):
    P = q.pulses
    if t[0] == 'a':
        spec = pool[t[1]]
        dur = float(F(spec['n'] * rate[1], rate[0]))
        subs = []
        for ch, cs in spec['ch'].items():
            if loopvar is not None and ch == 'B':
                # inside a for-loop the body has to use the index: channel B steps with it
                subs.append(P.ConstantPT(dur, {real_id(ids, ch): '0.015625*%s - 0.125' % loopvar}))
            else:
                subs.append(build_channel_pt(q, real_id(ids, ch), cs, dur))
        return P.AtomicMultiChannelPT(*subs)
    if t[0] == 'seq':
        return P.SequencePT(*[build_pt(q, c, pool, rate, counter, loopvar, ids) for c in t[1]])
    if t[0] == 'rep':
        return P.RepetitionPT(build_pt(q, t[2], pool, rate, counter, loopvar, ids), t[1])
    counter[0] += 1
    var = 'i%d' % counter[0]
    body = build_pt(q, t[2], pool, rate, counter, var, ids)
    if var not in body.parameter_names:
        return P.RepetitionPT(body, t[1])
    return P.ForLoopPT(body, var, t[1])


def build_loop(q, t, wfs, vols, vars_=None, scopes=None):
    if scopes is None:
        scopes = {}
        for name, sc, value in (vars_ or []):
            scopes.setdefault(sc, {})[name] = value
        scopes = {sc: q.DictScope(q.FrozenDict(vals), volatile=set(vals)) for sc, vals in scopes.items()}

    def rep(count, vol):
        if vol is False or vol is None:
            return count
        if vol is True:
            name = 'v%d' % len(vols)
            scope = q.DictScope(q.FrozenDict({name: count}), volatile={name})
        else:
            name, sc, _value = vars_[vol]
            scope = scopes[sc]
        vc = q.VolatileRepetitionCount(q.ExpressionScalar(name), scope)
        vols.append(vc)
        return vc
    if t[0] == 'w':
        return q.Loop(waveform=wfs[t[2]], repetition_count=rep(t[1], t[3]))
    return q.Loop(children=[build_loop(q, c, wfs, vols, vars_, scopes) for c in t[3]],
                  repetition_count=rep(t[1], t[2]))


def build_program(q, case):
    rate = tuple(case['rate'])
    if case.get('pt') is not None:
        pt = build_pt(q, case['pt'], case['pool'], rate, [0], None, case.get('ids'))
        prog = pt.create_program()
        if prog is None:
            raise core.MachineryError('empty program from pulse template')
        return prog, {}
    wfs = [build_wf(q, s, rate, case.get('ids')) for s in case['pool']]
    specs = {id(w): (json.dumps([s, rate], sort_keys=True), w) for w, s in zip(wfs, case['pool'])}
    return build_loop(q, case['tree'], wfs, [], case.get('vars')), specs


# ---------------------------------------------------------------------------------------------
# observing the source program and the implementation
# ---------------------------------------------------------------------------------------------

class Pre(str):
    """an already serialised s-expression fragment"""


def ser(o):
    if isinstance(o, Pre):
        return str(o)
    if isinstance(o, (list, tuple)):
        return '(' + ' '.join(ser(x) for x in o) + ')'
    return sx(o)


def rle(xs):
    """run-length atoms `m` / `m*k` understood by the driver"""
    out = []
    prev, k = None, 0
    for x in xs:
        if x == prev:
            k += 1
        else:
            if k:
                out.append(str(prev) if k == 1 else '%d*%d' % (prev, k))
            prev, k = x, 1
    if k:
        out.append(str(prev) if k == 1 else '%d*%d' % (prev, k))
    return out


def ints(tag, xs):
    return Pre('(' + ' '.join(([tag] if tag else []) + rle([int(x) for x in xs])) + ')')


_SAMPLE_CACHE = {}


def dyadic(arr):
    """exact encoding of a float array: ['d', E, m...] with value m * 2**E"""
    ratios = [float(v).as_integer_ratio() for v in arr]
    k = max((d.bit_length() - 1 for _, d in ratios), default=0)
    return ['d', -k] + [Pre(a) for a in rle([n << (k - (d.bit_length() - 1)) for n, d in ratios])]


def bits(arr):
    return 'b' + ''.join('1' if v else '0' for v in arr)


class Source:
    """the source program as the judge needs it: play tree over object ids + expected samples per object"""

    def __init__(self, q, prog, case, specs=None):
        self.q = q
        specs = specs or {}
        np = q.np
        cfg = case['cfg']
        rate = q.TimeType.from_fraction(*case['rate'])
        ids = case.get('ids')
        self.used = frozenset(real_id(ids, c) for c in cfg['channels'] + cfg['markers'] if c is not None)
        self.obj_ids = {}
        self.eq_ids = {}
        self.wf_lines = []
        self.lengths_ok = True
        self.integral = True
        self.sample_error = None
        self.tree_obj = self._walk(prog, self._obj_id)
        self.tree_eq = self._walk(prog, self._eq_id)
        self.total = 0
        # expected samples
        for wf, i in sorted(self.obj_ids.values(), key=lambda p: p[1]):
            nf = wf.duration * rate
            nf = F(int(nf.numerator), int(nf.denominator))
            n = int(round(nf))
            # compatible with the sample rate = a whole number of samples up to the documented 1e-10 tolerance
            # (compared exactly); anything else has to be rejected, never rounded to a playable length
            if abs(nf - n) > F(1, 10 ** 10) or n <= 0:
                self.integral = False
                self.fractional = getattr(self, 'fractional', []) + [str(nf)]
                self.wf_lines.append(None)
                continue
            if n % 16 or n < 192:
                self.lengths_ok = False
            times = None
            item = ['wf', i, n]
            spec = specs.get(id(wf), (None,))[0]
            try:
                for idx in (0, 1):
                    ch = cfg['channels'][idx]
                    if ch is None:
                        item.append(None)
                        continue
                    key = (spec, ch, cfg['trafos'][idx]) if spec else None
                    val = _SAMPLE_CACHE.get(key) if key else None
                    if val is None:
                        if times is None:
                            times = np.arange(n, dtype=float) / float(rate)
                        val = Pre(ser(dyadic(TRAFOS[cfg['trafos'][idx]](wf.get_sampled(real_id(ids, ch), times)))))
                        if key and len(_SAMPLE_CACHE) < 4000:
                            _SAMPLE_CACHE[key] = val
                    item.append(val)
                for idx in (0, 1):
                    mk = cfg['markers'][idx]
                    if mk is None:
                        item.append(None)
                        continue
                    key = (spec, mk, 'marker') if spec else None
                    val = _SAMPLE_CACHE.get(key) if key else None
                    if val is None:
                        if times is None:
                            times = np.arange(n, dtype=float) / float(rate)
                        # full rate; the judge keeps every second sample of the whole program
                        val = Pre(bits(wf.get_sampled(real_id(ids, mk), times) != 0))
                        if key and len(_SAMPLE_CACHE) < 4000:
                            _SAMPLE_CACHE[key] = val
                    item.append(val)
            except Exception as exc:  # noqa  (sampling the source failed: not a C16 matter)
                self.sample_error = core.classify_exception(exc)
                item = None
            self.wf_lines.append(item)

    def _obj_id(self, wf):
        ent = self.obj_ids.get(id(wf))
        if ent is None:
            ent = (wf, len(self.obj_ids))
            self.obj_ids[id(wf)] = ent
        return ent[1]

    def _eq_id(self, wf):
        try:
            key = wf.get_subset_for_channels(self.used) if self.used <= wf.defined_channels else wf
        except Exception:  # noqa
            key = wf
        return self.eq_ids.setdefault(key, len(self.eq_ids))

    def _walk(self, loop, ident):
        if loop.is_leaf():
            if loop.waveform is None:
                return ['l', loop.repetition_count]
            return ['w', loop.repetition_count, ident(loop.waveform)]
        return ['l', loop.repetition_count] + [self._walk(c, ident) for c in loop]


def vol_ids(table):
    return {}


def staged_program(q, prog, mode_req):
    """what `TaborProgram.__init__` hands to parse/prepare, produced with the real `encapsulate` /
    `flatten_and_balance`; returns the staged program, the mode and the two volatility labellings"""
    st = prog.copy_tree_structure()
    props = {}
    scopes = {}

    def prop_id(loop):
        v = loop.volatile_repetition
        key = (str(v.expression), tuple(sorted((k, str(e)) for k, e in v.dependencies.items())))
        return props.setdefault(key, len(props))

    def vol(loop):
        """table level: id of the volatile property or '-'"""
        return prop_id(loop) if loop.volatile_repetition else '-'

    def evol(loop):
        """entry level: (volatile property, scope identity) -- what parse_aseq_program keys tables by"""
        if not loop.volatile_repetition:
            return '-'
        scope = loop.repetition_definition._scope
        return [prop_id(loop), scopes.setdefault(id(scope), (len(scopes), scope))[0]]

    root_vol = bool(st.volatile_repetition)
    if st.repetition_count > 1 or st.volatile_repetition or st.depth() == 0:
        st.encapsulate()
    mode = mode_req
    if mode == 'auto':
        mode = 'advanced' if st.depth() > 1 else 'single'
    return st, mode, (vol, evol), root_vol


def staged_sx(q, st, mode, vols, eq_id):
    vol, evol = vols
    if mode == 'single':
        if st.depth() != 1:
            return 'none'
        return ['flat1', st.repetition_count] + [['e', c.repetition_count, eq_id(c.waveform), evol(c)] for c in st]
    if st.depth() <= 1 or st.repetition_count != 1:
        return 'none'
    st.flatten_and_balance(2)
    return ['flat2'] + [['st', t.repetition_count, vol(t)] +
                        [['e', c.repetition_count, eq_id(c.waveform), evol(c)] for c in t] for t in st]


def classify_impl_error(exc):
    name = type(exc).__name__
    msg = str(exc)
    if name == 'TaborException':
        if 'shorter' in msg:
            return 'too_long'
        if 'longer' in msg:
            return 'too_short'
        if '192' in msg:
            return 'segment_length'
        return 'tabor:' + msg[:40]
    if name == 'ValueError':
        if 'out of range' in msg:
            return 'value_error'
        if 'non integer length' in msg or 'length <= zero' in msg:
            return 'sample_count'
        return 'value_error:' + msg[:40]
    return core.classify_exception(exc)


def run_impl(q, prog, case):
    """build the real TaborProgram on a copy; returns ('ok', data) | ('error', class)"""
    cfg = case['cfg']
    tb = q.tb
    mode = {'auto': None, 'single': tb.TaborSequencing.SINGLE, 'advanced': tb.TaborSequencing.ADVANCED}[cfg['mode']]
    props = {'chan_per_part': 2, 'min_seq_len': cfg['limits'][0], 'max_seq_len': cfg['limits'][1]}
    try:
        ids = case.get('ids')
        tp = tb.TaborProgram(prog.copy_tree_structure(), props, tuple(real_id(ids, c) for c in cfg['channels']),
                             tuple(real_id(ids, c) for c in cfg['markers']),
                             tuple(cfg['amps']), tuple(cfg['offs']), tuple(TRAFOS[t] for t in cfg['trafos']),
                             q.TimeType.from_fraction(*case['rate']), mode)
    except Exception as exc:  # noqa
        return 'error', classify_impl_error(exc)
    segments, _lengths = tp.get_sampled_segments()
    segs = [ints('', s.get_as_binary()) for s in segments]
    seqtabs = [[[int(e.repetition_count), int(e.element_id), int(e.jump_flag)] for (e, _v) in tab]
               for tab in tp.get_sequencer_tables()]
    adv = [[int(r), int(n), int(j)] for (r, n, j) in tp.get_advanced_sequencer_table()]
    m = 'single' if tp.waveform_mode == tb.TaborSequencing.SINGLE else 'advanced'
    return 'ok', {'mode': m, 'segs': segs, 'seqtabs': seqtabs, 'adv': adv,
                  'seglens': [int(s.num_points) for s in segments]}


# ---------------------------------------------------------------------------------------------
# one batch of cases: implementation, model, judge
# ---------------------------------------------------------------------------------------------

def _tree_duration(case, src):
    """exact duration of the source program in time units (from the real waveform objects)"""
    durs = {i: F(int(wf.duration.numerator), int(wf.duration.denominator)) for wf, i in src.obj_ids.values()}

    def go(t):
        if t[0] == 'w':
            return t[1] * durs[t[2]]
        return t[1] * sum((go(c) for c in t[2:]), F(0))
    return go(src.tree_obj)


def same_layout(model, impl):
    """model tables over waveform ids vs implementation tables over segment indices, equal up to a consistent
    renaming waveform id -> segment index (several waveforms may share one segment)"""
    m_tabs, m_adv, m_wfs = model
    if [tuple(a[:2]) for a in impl['adv']] != [tuple(a) for a in m_adv]:
        return False
    if len(m_tabs) != len(impl['seqtabs']):
        return False
    ren = {}
    for mt, it in zip(m_tabs, impl['seqtabs']):
        if len(mt) != len(it):
            return False
        for (mr, me, _mv), (ir, ie, _ij) in zip(mt, it):
            if mr != ir or ren.setdefault(m_wfs[me], ie) != ie:
                return False
    return True


def same_multiset(model, impl):
    m_tabs, m_adv, m_wfs = model
    a = sorted((r, tuple((e[0]) for e in m_tabs[n - 1])) for r, n in m_adv)
    b = sorted((x[0], tuple(e[0] for e in impl['seqtabs'][x[1] - 1])) for x in impl['adv'])
    return a == b


class Batch:
    def __init__(self, ctx, label):
        self.ctx = ctx
        self.label = label
        self.items = []

    def add(self, case):
        self.items.append(case)

    def run(self):
        ctx = self.ctx
        q = _q()
        lines = []
        meta = []
        for case in self.items:
            cfg = case['cfg']
            try:
                prog, specs = build_program(q, case)
            except core.MachineryError:
                raise
            except Exception as exc:  # noqa  (building the *source* failed: nothing to compile)
                ctx.count(self.label + ':source-build-failed:' + type(exc).__name__)
                continue
            src = Source(q, prog, case, specs)
            tsrc = src                      # the program handed to TaborProgram (differs after make_compatible)
            if case.get('compat'):
                target = prog.copy_tree_structure()
                try:
                    q.make_compatible(target, 192, 16, q.TimeType.from_fraction(*case['rate']))
                except ValueError:
                    ctx.count(self.label + ':skipped:make_compatible-rejects')
                    continue
                tsrc = Source(q, target, case)
                prog = target
            if src.sample_error is not None and tsrc.integral and tsrc.lengths_ok:
                ctx.count(self.label + ':source-sampling-failed:' + src.sample_error)
                continue
            status, impl = run_impl(q, prog, case)
            st, mode, vol, root_vol = staged_program(q, prog, cfg['mode'])
            try:
                staged = staged_sx(q, st, mode, vol, tsrc._eq_id)
            except Exception as exc:  # noqa
                # flatten_and_balance itself failed (C06/C13 territory, e.g. PF-07/PF-08: merging two volatile
                # repetition counts raises): there is no program for the Tabor back end to compile
                ctx.count(self.label + ':skipped:flatten-failed:' + type(exc).__name__)
                if status == 'ok':
                    raise core.MachineryError('flatten_and_balance failed in the harness but TaborProgram succeeded')
                continue
            lim = ['limits', cfg['limits'][0], cfg['limits'][1]]
            mline = ser(['c16', 'model', cfg['mode'], lim, ['src', tsrc.tree_eq], ['rootvol', root_vol], staged])
            entry = {'case': case, 'src': tsrc, 'status': status, 'impl': impl, 'model_at': len(lines),
                     'judge_at': None, 'range_at': None, 'mline': mline}
            lines.append(mline)
            complete = all(w is not None for w in src.wf_lines)
            cfgsx = ['cfg'] + [F(cfg['amps'][0]), F(cfg['offs'][0]), F(cfg['amps'][1]), F(cfg['offs'][1])]
            if status == 'ok' and complete:
                entry['judge_at'] = len(lines)
                lines.append(ser(['c16', 'judge', impl['mode'], lim, ['src', src.tree_obj], cfgsx,
                                 ['wfs'] + src.wf_lines, ['segs'] + impl['segs'],
                                 ['seqtabs'] + impl['seqtabs'], ['adv'] + impl['adv']]))
            elif complete:
                # are all voltages inside the output range? (judge request with nothing to replay)
                entry['range_at'] = len(lines)
                lines.append(ser(['c16', 'inrange', cfgsx, ['wfs'] + [w[:5] + [None, None] for w in src.wf_lines]]))
            meta.append(entry)
        answers = core.Lean.run(lines)
        for e in meta:
            self._evaluate(e, answers)

    # -- verdicts ---------------------------------------------------------------------------------
    def _evaluate(self, e, answers):
        ctx, case, src = self.ctx, e['case'], e['src']
        cfg = case['cfg']
        status, impl = e['status'], e['impl']
        model = answers[e['model_at']]
        label = self.label
        nontrivial = False
        replay = {'kind': 'case', 'case': case}
        if model[0] == 'err':
            raise core.MachineryError('model request rejected: %r for %s' % (model, e['mline'][:300]))
        # ---- expected outcome according to the model + the facts about the source
        if model[0] == 'error':
            expect = 'error:' + model[1]
        elif not src.integral:
            expect = 'error:sample_count'
        elif not src.lengths_ok:
            expect = 'error:segment_length'
        else:
            expect = 'ok'
        got = 'ok' if status == 'ok' else 'error:' + impl
        # ---- the judge on the implementation's output
        verdict = None
        if e['judge_at'] is not None:
            verdict = answers[e['judge_at']]
            if verdict[0] == 'err':
                raise core.MachineryError('judge request rejected: %r' % (verdict,))
            if verdict[0] == 'violates':
                clause = verdict[1]
                detail = ' '.join(map(str, verdict[1:]))
                if clause in ('channel-a', 'channel-b') and len(verdict) >= 6:
                    if int(verdict[4]) > int(verdict[5]):
                        detail = ('%s sample %s: the source voltage lies outside [offset - amplitude, offset + amplitude] '
                                  '(amplitudes %s, offsets %s), the program had to be rejected; the device plays code %s'
                                  % (clause, verdict[2], cfg['amps'], cfg['offs'], verdict[3]))
                    else:
                        detail = ('%s sample %s: device plays code %s, the quantised source is %s'
                                  % (clause, verdict[2], verdict[3],
                                     verdict[4] if verdict[4] == verdict[5] else verdict[4] + ' or ' + verdict[5]))
                ctx.violation('TaborProgram output violates the property: %s (mode %s, limits %s, channels %s, '
                              'markers %s)' % (detail, impl['mode'], cfg['limits'],
                                               cfg['channels'], cfg['markers']),
                              dict(replay, judge=verdict, tables={'seqtabs': impl['seqtabs'], 'adv': impl['adv']}))
                ctx.count(label + ':violation:' + clause)
                ctx.case(e['mline'], nontrivial=True)
                return
            else:
                nontrivial = int(verdict[2]) > 1
                ctx.count(label + ':replayed-samples', int(verdict[1]))
        elif status == 'ok':
            # the implementation produced a device program although the source cannot even be sampled
            # ... i.e. it was altered (a piece rounded to a playable length) instead of rejected
            seg_len = impl['seglens']
            try:
                played = sum(ar * sum(r * seg_len[el] for r, el, _j in impl['seqtabs'][no - 1])
                             for ar, no, _aj in impl['adv'])
            except Exception:  # noqa
                played = None
            ctx.violation('TaborProgram accepted a program with a piece of %s samples (no whole number of samples at '
                          'this sample rate): rounded instead of rejected, the device plays %s samples for a source '
                          'of %s samples' % (', '.join(getattr(src, 'fractional', ['?'])), played,
                                             F(*case['rate']) * _tree_duration(case, src)),
                          dict(replay, tables={'seqtabs': impl['seqtabs'], 'adv': impl['adv']}))
            ctx.count(label + ':violation:non-integer-length-accepted')
            ctx.case(e['mline'], nontrivial=True)
            return
        if status != 'ok' and e['range_at'] is not None and expect == 'ok':
            r = answers[e['range_at']]
            if r[0] == 'err':
                raise core.MachineryError('inrange request rejected: %r' % (r,))
            if r[1] == 'false' or (r[1] == 'boundary' and impl == 'value_error'):
                expect = 'error:value_error'       # some voltage lies outside the output range
        ctx.count(label + ':outcome:' + got)
        ctx.count(label + ':mode:' + (impl['mode'] if status == 'ok' else cfg['mode']))
        ctx.case(e['mline'], nontrivial=nontrivial or got != 'ok')
        if got == 'error:value_error' and expect == 'ok':
            # every transformed voltage lies inside [offset - amplitude, offset + amplitude] (checked exactly in
            # Lean, not even within 2^-40 of the ends): the device can play this program, rejecting it with a
            # voltage-range error is wrong
            ctx.violation('TaborProgram rejects a playable program with "Voltage out of range": all transformed '
                          'voltages lie inside [offset - amplitude, offset + amplitude] (amplitudes %s, offsets %s, '
                          'transformations %s, channels %s)' % (cfg['amps'], cfg['offs'], cfg['trafos'], cfg['channels']),
                          dict(replay))
            ctx.count(label + ':violation:in-range-rejected')
            return
        # ---- correspondence
        if got != expect:
            ctx.drift('TaborProgram outcome vs QP.C16 model (initProgram/chooseMode/setupAdvanced/parse)',
                      dict(replay), got, expect)
            ctx.count(label + ':drift')
            return
        if status == 'ok' and model[0] == 'ok':
            m_wfs = [int(x) for x in model[2][1:]]
            m_tabs = [[(int(a[0]), int(a[1]), a[2]) for a in tab] for tab in model[3][1:]]
            m_adv = [(int(a[0]), int(a[1])) for a in model[4][1:]]
            if model[5][1] != 'true':
                ctx.drift('flatten_and_balance(2) changed the play order (input of the C16 model)', dict(replay),
                          'staged program plays differently', 'same play order')
            if model[1] != impl['mode']:
                ctx.drift('sequencing mode', dict(replay), impl['mode'], model[1])
            mt = (m_tabs, m_adv, m_wfs)
            if same_layout(mt, impl):
                ctx.count('structural:same-layout')
            elif same_multiset(mt, impl):
                ctx.count('structural:same-table-multiset')
            else:
                ctx.count('structural:different')
                ctx.extra.setdefault('structural_differences', [])
                if len(ctx.extra['structural_differences']) < 5:
                    ctx.extra['structural_differences'].append({'case': case, 'impl': [impl['seqtabs'], impl['adv']],
                                                                'model': [m_tabs, m_adv]})


# ---------------------------------------------------------------------------------------------
# case families
# ---------------------------------------------------------------------------------------------

def random_case(rng, family):
    rate = list(rng.choice(RATES))
    malformed_len = family == 'malformed' and rng.random() < 0.5
    malformed_range = family == 'malformed' and not malformed_len
    pool = gen_pool(rng, rate, 0.3, rng.randrange(1, 6), malformed=malformed_len)
    cfg = gen_config(rng, malformed=malformed_range)
    case = {'rate': rate, 'pool': pool, 'cfg': cfg, 'family': family}
    if rng.random() < 0.35:
        case['ids'] = dict(rng.choice(ID_MAPS))
    if family == 'pt':
        for spec in pool:
            spec['ch'].pop('X', None)
        # atomic multi-channel templates need equal durations only per atom: pool entries are independent
        case['pt'] = gen_pt_tree(rng, rng.randrange(1, 4), len(pool))
        case['tree'] = None
    else:
        depth = rng.choice([0, 1, 1, 2, 2, 2, 3, 3, 4])
        for _ in range(20):
            if family == 'volatile':
                case['vars'] = gen_vars(rng)
                tree = gen_tree(rng, depth, len(pool), 0, vol_p=0.2, vars_=case['vars'], root=True)
            else:
                tree = gen_tree(rng, depth, len(pool), 0)
            if tree_play_len(tree) <= 400:
                break
        else:
            tree = ['w', 2, 0, False]
        case['tree'] = tree
        case['pt'] = None
    return case


def compat_case(rng):
    """a program some of whose pieces are too short / off the 16-sample quantum but add up to compatible
    pieces; it goes through `make_compatible` first, as in the driver's `upload`"""
    rate = list(rng.choice([(1, 1), (2, 1), (1, 2), (4, 1), (1, 4)]))      # exact float sample times
    q = rate_quantum(rate)
    pool = gen_pool(rng, rate, 0.3, rng.randrange(1, 4))
    units = [[i] for i in range(len(pool))]
    for _ in range(rng.randrange(1, 3)):
        total = q * rng.randrange((192 + q - 1) // q, (192 + q - 1) // q + 6)
        step = max(1, rate[0])                                             # whole time units
        cut = step * rng.randrange(1, total // step)
        pair = []
        for n in (cut, total - cut):
            spec = {'n': n, 'ch': {}}
            for ch in VOLT:
                spec['ch'][ch] = gen_channel_spec(rng, n, rate, False, 0.3)
            for ch in MARK:
                spec['ch'][ch] = gen_channel_spec(rng, n, rate, True, 0.3)
            pool.append(spec)
            pair.append(len(pool) - 1)
        units.append(pair)

    def expand(t):
        if t[0] == 'w':
            u = units[t[2]]
            if len(u) == 1:
                return ['w', t[1], u[0], False]
            return ['l', t[1], False, [['w', 1, u[0], False], ['w', 1, u[1], False]]]
        return ['l', t[1], False, [expand(c) for c in t[3]]]

    for _ in range(20):
        tree = gen_tree(rng, rng.choice([1, 2, 2, 3]), len(units), 0)
        if tree_play_len(tree) <= 200:
            break
    else:
        tree = ['l', 1, False, [['w', 2, len(units) - 1, False]]]
    cfg = gen_config(rng)
    case = {'rate': rate, 'pool': pool, 'cfg': cfg, 'family': 'compat', 'tree': expand(tree), 'pt': None, 'compat': True}
    if rng.random() < 0.35:
        case['ids'] = dict(rng.choice(ID_MAPS))
    return case


SMALL_WF = [
    {'n': 192, 'ch': {'A': ['const', 0.25], 'B': ['const', -0.125], 'M': ['const', 1.0], 'N': ['const', 0.0]}},
    {'n': 192, 'ch': {'A': ['const', 0.25], 'B': ['const', 0.125], 'M': ['const', 0.0], 'N': ['const', 1.0]}},
    # same channel A words (codes and marker bits) as waveform 0, different channel B
    {'n': 192, 'ch': {'A': ['const', 0.25], 'B': ['const', 0.1875], 'M': ['const', 1.0], 'N': ['const', 0.0]}},
]
# distinct waveforms that quantise to the segments of waveform 0 / waveform 1 (2^-30 V is far below one code;
# a constant written as a table that is not folded into a ConstantWaveform)
TWIN_WF = SMALL_WF + [
    {'n': 192, 'ch': {'A': ['const', 0.25 + 2.0 ** -30], 'B': ['const', -0.125], 'M': ['const', 1.0], 'N': ['const', 0.0]}},
    {'n': 192, 'ch': {'A': ['const', 0.25], 'B': ['rawtable', [[0.0, 0.125, 'hold'], [192.0, 0.125, 'hold']]],
                      'M': ['const', 0.0], 'N': ['const', 1.0]}},
]
ENTRY_LISTS = [[(1, 0)], [(2, 0)], [(3, 1)], [(1, 0), (1, 1)], [(1, 0), (1, 0)], [(2, 0), (1, 1)], [(1, 1), (2, 0)],
               [(1, 0), (1, 1), (1, 0)], [(1, 0), (1, 1), (2, 0)], [(5, 1)], [(1, 0), (1, 1), (1, 0), (1, 1)],
               [(1, 0), (1, 2)], [(2, 2)]]


def exhaustive_cases(max_tables, limits, counts):
    tables = [(r, es) for r in counts for es in ENTRY_LISTS]
    for k in range(1, max_tables + 1):
        for combo in itertools.product(tables, repeat=k):
            tree = ['l', 1, False, [['l', r, False, [['w', c, w, False] for c, w in es]] for r, es in combo]]
            for lim in limits:
                yield {'rate': [1, 1], 'pool': SMALL_WF, 'tree': tree, 'pt': None, 'family': 'exhaustive',
                       'cfg': {'channels': ['A', 'B'], 'markers': ['M', 'N'], 'amps': [0.5, 0.5], 'offs': [0.0, 0.0],
                               'trafos': ['id', 'id'], 'limits': list(lim), 'mode': 'auto'}}


def twin_cases():
    """different waveforms sharing one segment, followed by waveforms that need new segments: the segment numbering
    of _calc_sampled_segments / get_sequencer_tables must stay consistent with the segment list"""
    cfg = {'channels': ['A', 'B'], 'markers': ['M', 'N'], 'amps': [0.5, 0.5], 'offs': [0.0, 0.0],
           'trafos': ['id', 'id'], 'limits': [1, 16384], 'mode': 'auto'}
    seqs = [[0, 3, 1], [3, 0, 2, 1], [1, 4, 0, 2], [0, 3, 1, 4, 2], [4, 1, 2], [0, 1, 3, 2], [2, 3, 0, 4, 1], [3, 4]]
    for seq in seqs:
        k = max(1, len(seq) // 2)
        trees = [['l', 1, False, [['w', 1 + (i % 2), w, False] for i, w in enumerate(seq)]],
                 ['l', 1, False, [['l', 2, False, [['w', 1, w, False] for w in seq[:k]]],
                                  ['l', 3, False, [['w', 2, w, False] for w in seq[k:]]]]]]
        for tree in trees:
            for chans in (['A', 'B'], [None, 'B'], ['B', 'A']):
                for lim in ([1, 16384], [2, 4]):
                    yield {'rate': [1, 1], 'pool': TWIN_WF, 'tree': tree, 'pt': None, 'family': 'twins',
                           'cfg': dict(cfg, channels=chans, limits=lim)}


def fraction_cases():
    """piece durations that are no whole number of samples, fractional parts on both sides of legal segment
    lengths: alone and inside an otherwise valid program. Expected: rejection, except within the 1e-10 tolerance"""
    cfg = {'channels': ['A', 'B'], 'markers': ['M', 'N'], 'amps': [0.5, 0.5], 'offs': [0.0, 0.0],
           'trafos': ['id', 'id'], 'limits': [1, 16384], 'mode': 'auto'}
    for rate in ([1, 1], [12, 5], [3, 2]):
        q = rate_quantum(rate)
        good = {'n': 4 * q if 4 * q >= 192 else 192 // q * q + q, 'ch': SMALL_WF[0]['ch']}
        for legal in sorted({(192 + q - 1) // q * q, (208 + q - 1) // q * q + q}):
            for frac in FRACTIONS:
                bad = {'n': legal, 'ch': SMALL_WF[1]['ch'], 'dur': fractional_duration(rate, legal, frac)}
                for tree in (['w', 1, 1, False],
                             ['l', 1, False, [['w', 2, 0, False], ['w', 1, 1, False], ['w', 1, 0, False]]],
                             ['l', 1, False, [['l', 2, False, [['w', 1, 0, False], ['w', 2, 1, False]]], ['w', 3, 0, False]]]):
                    yield {'rate': rate, 'pool': [good, bad], 'tree': tree, 'pt': None, 'family': 'fraction',
                           'cfg': dict(cfg)}


def range_cases():
    """voltages at and next to both ends of the output range, offsets of both signs: everything inside
    [offset - amplitude, offset + amplitude] has to be compiled (and played with the right codes), anything
    outside has to be rejected"""
    base = {'channels': ['A', 'B'], 'markers': ['M', 'N'], 'trafos': ['id', 'id'], 'limits': [1, 16384], 'mode': 'auto'}
    factors = [-1.0, -0.9999, -0.75, 0.75, 0.9999, 1.0, -1.0001, 1.0001, -1.25, 1.25]
    for amp in (0.5, 1.0):
        for off in (-0.25, -0.0625, 0.0, 0.0625, 0.25):
            for trafo in ('id', 'neg'):
                sign = -1.0 if trafo == 'neg' else 1.0
                for i, k in enumerate(factors):
                    kb = factors[(i + 3) % 6]                      # channel B: always a playable value
                    va, vb = sign * (off + amp * k), off + amp * kb
                    pool = [{'n': 192, 'ch': {'A': ['const', va], 'B': ['const', vb], 'M': ['const', 1.0], 'N': ['const', 0.0]}},
                            {'n': 192, 'ch': {'A': ['const', sign * off], 'B': ['const', off + amp * factors[i % 6]],
                                              'M': ['const', 0.0], 'N': ['const', 1.0]}}]
                    for chans in (['A', 'B'], ['B', 'A']):
                        tr = [trafo, 'id'] if chans == ['A', 'B'] else ['id', trafo]
                        yield {'rate': [1, 1], 'pool': pool, 'pt': None, 'family': 'range',
                               'tree': ['l', 1, False, [['w', 2, 0, False], ['w', 1, 1, False]]],
                               'cfg': dict(base, channels=chans, trafos=tr, amps=[amp, amp], offs=[off, off])}


def ids_cases():
    """integer channel / marker identifiers (0 included) on every output"""
    cfg = {'channels': ['A', 'B'], 'markers': ['M', 'N'], 'amps': [0.5, 0.5], 'offs': [0.0, 0.0],
           'trafos': ['id', 'id'], 'limits': [1, 16384], 'mode': 'auto'}
    trees = [['l', 1, False, [['w', 2, 0, False], ['w', 1, 1, False], ['w', 1, 2, False]]],
             ['l', 2, False, [['l', 2, False, [['w', 1, 0, False], ['w', 1, 1, False]]], ['w', 3, 2, False]]]]
    for ids in ID_MAPS:
        for tree in trees:
            for chans in (['A', 'B'], ['B', 'A'], [None, 'A'], ['A', None], ['A', 'A'], [None, 'B']):
                for marks in (['M', 'N'], [None, 'M'], ['N', None]):
                    yield {'rate': [1, 1], 'pool': SMALL_WF, 'tree': tree, 'pt': None, 'family': 'ids', 'ids': dict(ids),
                           'cfg': dict(cfg, channels=chans, markers=marks)}


def volscope_cases():
    """tables with equal entries whose volatile counts share / do not share property and scope, volatile table
    counts and a volatile root (count 1 and > 1): exercises the table key of parse_aseq_program and the head of
    TaborProgram.__init__"""
    vars_ = [['n', 0, 2], ['n', 1, 2], ['m', 0, 2], ['n', 2, 1]]
    cfg = {'channels': ['A', 'B'], 'markers': ['M', 'N'], 'amps': [0.5, 0.5], 'offs': [0.0, 0.0],
           'trafos': ['id', 'id'], 'limits': [1, 16384], 'mode': 'auto'}
    for j1 in range(3):
        for j2 in range(3):
            for root in (False, 3, 0):
                for tab in (False, 0, 1):
                    tree = ['l', vars_[root][2] if root is not False else 1, root,
                            [['l', 2, tab, [['w', 2, 0, j1], ['w', 1, 1, False]]],
                             ['l', 2, tab, [['w', 2, 0, j2], ['w', 1, 1, False]]]]]
                    for lim in ([1, 16384], [3, 8]):
                        yield {'rate': [1, 1], 'pool': SMALL_WF, 'tree': tree, 'pt': None, 'family': 'volscope',
                               'vars': vars_, 'cfg': dict(cfg, limits=lim)}
    for root in (3, 0):
        # a flat program with a volatile root count: encapsulated, hence advanced mode
        yield {'rate': [1, 1], 'pool': SMALL_WF, 'tree': ['l', vars_[root][2], root, [['w', 2, 0, False], ['w', 1, 1, 1]]],
               'pt': None, 'family': 'volscope', 'vars': vars_, 'cfg': dict(cfg)}


def run(ctx: core.Ctx):
    ctx.rule = ('real Loop programs (direct trees depth 0-4 and pulse-template programs) over pools of 1-5 '
                'Constant/Table/Function multi-channel waveforms (siblings sharing some channel data, equal '
                'duplicates, an unused extra channel) at 9 sample rates, lengths multiples of 16 >= 192; 7x7 '
                'channel/marker assignments incl. None, 5 amplitudes x 5 offsets x 7 voltage transformations, 12 '
                '(min_seq_len, max_seq_len) pairs, modes auto/single/advanced; volatile repetition counts; a '
                'malformed stream (short / non-quantum / fractional lengths, out-of-range voltages); plus all '
                'depth-2 programs of <= k tables over 13 entry lists x counts x small limits. Non-trivial = the '
                'device program was replayed and plays more than one segment, or the program was rejected; '
                'distinct by canonical model request line')
    ctx.assumptions = [
        'the source program is observed through the real waveforms\' get_sampled at the times arange(n)/float(rate) '
        '(waveform sampling itself is C08/C20)',
        'flatten_and_balance(2) is taken from the real code as input of the model (C06); its play order is re-checked',
        'the voltage transformation is applied by the harness with the same callable; quantisation is exact Rat '
        'round-half-even in Lean, a neighbouring code is accepted only within 2^-26 code units of a half-integer',
        'single sequencing mode: no lower bound on the table length is demanded (the driver pads with idle entries '
        'when arming), unused channels play code 8192 and unused markers False',
    ]
    q = _q()
    # ---- corpus first
    for rec in ctx.corpus():
        replay(ctx, rec, from_corpus=True)
        ctx.corpus_replayed += 1
    # ---- exhaustive small scope
    if ctx.quick:
        space = list(exhaustive_cases(2, [(2, 3), (3, 4), (2, 4), (3, 5), (4, 6)], (1, 2, 3)))
        ctx.exhaustive_spaces.append('all depth-2 programs with <= 2 tables (count in 1..3) over 13 entry lists, '
                                     '5 limit pairs: %d cases' % len(space))
    else:
        space = list(exhaustive_cases(2, [(2, 3), (3, 4), (2, 4), (3, 5), (4, 6), (1, 2), (3, 3), (5, 12)], (1, 2, 3, 4)))
        space += list(exhaustive_cases(3, [(3, 4), (2, 4)], (1, 2, 3)))
        ctx.exhaustive_spaces.append('all depth-2 programs with <= 2 tables (count 1..4) x 8 limit pairs and <= 3 '
                                     'tables (count 1..3) x 2 limit pairs over 13 entry lists: %d cases' % len(space))
    run_cases(ctx, 'exh', space, 3000 if ctx.quick else 1500)
    run_cases(ctx, 'volscope', list(volscope_cases()), 400)
    run_cases(ctx, 'twins', list(twin_cases()), 400)
    run_cases(ctx, 'ids', list(ids_cases()), 400)
    run_cases(ctx, 'range', list(range_cases()), 400)
    run_cases(ctx, 'fraction', list(fraction_cases()), 400)
    # ---- random structured cases
    for family, nq, nt in (('tree', 300, 20000), ('pt', 80, 5000), ('volatile', 60, 4000), ('malformed', 60, 3000),
                           ('compat', 50, 3000)):
        rng = ctx.fork(family)
        cases = [compat_case(rng) if family == 'compat' else random_case(rng, family) for _ in range(ctx.n(nq, nt))]
        run_cases(ctx, family, cases, 150 if ctx.quick else 100)
    _known_findings(ctx)
    # ---- failing-input search after a disagreement: more of everything, every case judged on the implementation
    if ctx.drifts and not ctx.violations:
        rng = ctx.fork('search')
        for _ in range(2):
            b = Batch(ctx, 'search')
            for _ in range(150):
                b.add(random_case(rng, rng.choice(['tree', 'tree', 'volatile', 'pt'])))
            b.run()
            if ctx.violations:
                break
    ok = ctx.counters.get('structural:same-layout', 0)
    total = ok + ctx.counters.get('structural:same-table-multiset', 0) + ctx.counters.get('structural:different', 0)
    ctx.extra['structural_agreement'] = '%d/%d accepted programs have the model\'s table layout' % (ok, total)


class _CollectCtx(core.Ctx):
    """run context of a worker process: nothing is printed or written, everything is handed back"""

    def __init__(self, pid, tier, seed):
        super().__init__(pid, tier, seed)
        self.collected = []
        self.known = []

    def violation(self, what, replay, found_input=True):
        self.collected.append((what, replay))

    def known_finding(self, finding_id, what):
        self.known.append((finding_id, what))


def _work(args):
    label, cases, tier, seed = args
    sub = _CollectCtx('C16', tier, seed)
    b = Batch(sub, label)
    for c in cases:
        b.add(c)
    b.run()
    return {'counters': sub.counters, 'distinct': sub.distinct, 'samples': sub.samples, 'evaluations': sub.evaluations,
            'violations': sub.collected, 'known': sub.known, 'drifts': sub.drifts, 'disagreements': sub.disagreements,
            'extra': sub.extra}


def run_cases(ctx, label, cases, chunk):
    """serial in the quick tier, 16 worker processes in the thorough tier"""
    parts = [(label, c, ctx.tier, ctx.seed) for c in _chunks(cases, chunk)]
    if ctx.quick or len(parts) < 2:
        for _label, c, _t, _s in parts:
            b = Batch(ctx, label)
            for x in c:
                b.add(x)
            b.run()
        return
    import multiprocessing
    with multiprocessing.get_context('fork').Pool(min(16, len(parts))) as pool:
        for res in pool.imap_unordered(_work, parts):
            for k, v in res['counters'].items():
                ctx.count(k, v)
            ctx.distinct |= res['distinct']
            ctx.evaluations += res['evaluations']
            ctx.disagreements += res['disagreements']
            ctx.drifts.extend(res['drifts'])
            for smp in res['samples']:
                if len(ctx.samples) < 12:
                    ctx.samples.append(smp)
            for what, rep in res['violations']:
                ctx.violation(what, rep)
            for fid, what in res['known']:
                ctx.known_finding(fid, what)
            for k, v in res['extra'].items():
                if isinstance(v, list):
                    ctx.extra.setdefault(k, [])
                    ctx.extra[k] = (ctx.extra[k] + v)[:5]


def _chunks(xs, n):
    for i in range(0, len(xs), n):
        yield xs[i:i + n]


def _check_packing(ctx, n):
    """QP.C16.pack / unpack against TaborSegment.from_sampled(...).get_as_binary() and the read-back properties"""
    q = _q()
    np = q.np
    rng = ctx.fork('packing')
    lines, impl = [], []
    for _ in range(n):
        nq = rng.choice([1, 2, 3, 12, 13])
        kind = rng.random()

        def code():
            if kind < 0.2:
                return rng.choice([0, 1, 8191, 8192, 16382, 16383])
            return rng.randrange(1 << 14)
        a = [code() for _ in range(16 * nq)]
        b = [code() for _ in range(16 * nq)]
        ma = [rng.random() < 0.5 for _ in range(8 * nq)]
        mb = [rng.random() < 0.5 for _ in range(8 * nq)]
        seg = q.tb.TaborSegment.from_sampled(np.array(a, dtype=np.uint16), np.array(b, dtype=np.uint16),
                                             np.array(ma), np.array(mb))
        raw = [int(w) for w in seg.get_as_binary()]
        back = q.tb.TaborSegment.from_binary_segment(np.array(raw, dtype=np.uint16))
        lines.append(sx(['c16', 'pack', ['a'] + a, ['b'] + b, bits(ma), bits(mb)]))
        impl.append(['ok'] + [str(w) for w in raw])
        lines.append(ser(['c16', 'unpack', ints('', raw)]))
        impl.append(['ok', [str(int(x)) for x in back.ch_a], [str(int(x)) for x in back.ch_b],
                     bits(back.marker_a), bits(back.marker_b)])
        if [int(x) for x in back.ch_a] != a or [int(x) for x in back.ch_b] != b or \
                [bool(x) for x in back.marker_a] != ma or [bool(x) for x in back.marker_b] != mb:
            ctx.violation('TaborSegment does not read back what was packed', {'kind': 'packing', 'a': a, 'b': b,
                                                                              'ma': bits(ma), 'mb': bits(mb)})
    for line, want, got in zip(lines, impl, core.Lean.run(lines)):
        ctx.case(line[:200], nontrivial=True)
        ctx.count('packing:' + line.split()[1])
        if want != got:
            ctx.drift('TaborSegment binary layout vs QP.C16.pack/unpack', line[:400], str(want)[:300], str(got)[:300])


def _check_codes(ctx, n):
    """QP.C16.code14 against voltage_to_uint16(..., resolution=14): equal codes except where the exact value is
    within 2^-26 code units of a half-integer (then a neighbouring code)"""
    q = _q()
    np = q.np
    from qupulse.hardware.util import voltage_to_uint16
    rng = ctx.fork('codes')
    lines, impl, metas = [], [], []
    for _ in range(n):
        amp = rng.choice([0.5, 1.0, 2.0, 0.75, 1.3, 0.1, 3.7])
        off = rng.choice([0.0, 0.0625, -0.125, 0.03, 1.0, -1.0, -0.03, 0.25, -0.25, 2.5, -2.5])
        step = 2 * amp / 16383
        vs = []
        for _ in range(24):
            r = rng.random()
            k = rng.randrange(16384)
            if r < 0.3:
                vs.append(off - amp + k * step)                       # code centres
            elif r < 0.6:
                vs.append(off - amp + (k + 0.5) * step)               # half steps (never exact in floats)
            elif r < 0.7:
                vs.append(rng.choice([off - amp, off + amp, off]))
            else:
                vs.append(off + rng.uniform(-amp, amp))
        r = rng.random()
        if r < 0.12:
            vs[rng.randrange(len(vs))] = off + amp * rng.choice([1.0000001, -1.0000001, 1.5, -2.0, -1.01, 1.01, -1.2, 1.2])
        elif r < 0.3:
            # only voltages close to (and at) both ends of the range, all of them playable
            vs = [off + amp * rng.choice([-1.0, -0.9999, -0.99, 0.99, 0.9999, 1.0]) * rng.choice([1.0, 1.0, 0.5])
                  for _ in range(24)]
        arr = np.array(vs, dtype=float)
        try:
            got = ['ok', [int(c) for c in voltage_to_uint16(arr, amp, off, 14)]]
        except ValueError:
            got = ['error', 'value_error']
        lines.append(ser(['c16', 'code14', F(amp), F(off), dyadic(arr)]))
        impl.append(got)
        metas.append((amp, off, [float(v) for v in arr]))
    for line, got, ans, meta in zip(lines, impl, core.Lean.run(lines), metas):
        ctx.case(line[:200], nontrivial=True)
        ctx.count('codes:' + got[0])
        if got[0] == 'error' or ans[0] == 'error':
            if got[0] != ans[0]:
                if ans[0] == 'error' and ans[2] == 'true':
                    # every sample is within 2^-40 (relative) of the range end: the float range check may round
                    ctx.count('codes:range-end-rounding')
                elif ans[0] == 'error':
                    ctx.violation('voltage_to_uint16 accepts a voltage outside [offset - amplitude, offset + amplitude] '
                                  '(amplitude %r, offset %r, voltages %r ... %r): it has to raise, the codes it returns '
                                  '(%s ...) are not the codes of these voltages'
                                  % (meta[0], meta[1], min(meta[2]), max(meta[2]), got[1][:4]),
                                  {'kind': 'code14', 'line': line, 'impl': str(got)[:300], 'spec': str(ans)[:100],
                                   'amp': meta[0], 'off': meta[1], 'voltages': meta[2]})
                    ctx.count('codes:violation:out-of-range-accepted')
                else:
                    ctx.violation('voltage_to_uint16 raises "Voltage out of range" although every voltage lies inside '
                                  '[offset - amplitude, offset + amplitude] = [%r, %r] (voltages %r ... %r)'
                                  % (meta[1] - meta[0], meta[1] + meta[0], min(meta[2]), max(meta[2])),
                                  {'kind': 'code14', 'line': line, 'impl': str(got), 'spec': str(ans)[:300],
                                   'amp': meta[0], 'off': meta[1], 'voltages': meta[2]})
                    ctx.count('codes:violation:in-range-rejected')
            continue
        want = [int(c) for c in ans[1]]
        near = [f == 'true' for f in ans[2]]
        for i, (g, w, nh) in enumerate(zip(got[1], want, near)):
            if g != w and not (nh and abs(g - w) == 1):
                ctx.violation('voltage_to_uint16 gives code %d, the exact round-half-even code is %d' % (g, w),
                              {'kind': 'code14', 'line': line, 'index': i, 'impl': g, 'spec': w})
                break
            if g != w:
                ctx.count('codes:neighbour-at-half-step')


def _known_findings(ctx):
    _check_packing(ctx, ctx.n(150, 3000))
    _check_codes(ctx, ctx.n(300, 6000))


def replay(ctx: core.Ctx, rec: dict, from_corpus: bool = False) -> bool:
    """re-execute one replay / corpus record against the implementation, the judge and the model"""
    before = (len(ctx.violations), len(ctx.drifts))
    if 'case' in rec and isinstance(rec['case'], dict):
        b = Batch(ctx, 'corpus' if from_corpus else 'replay')
        b.add(rec['case'])
        b.run()
    elif rec.get('kind') in ('packing', 'code14'):
        sub = core.Ctx(ctx.pid, rec.get('tier', 'quick'), rec.get('seed', 0))
        sub.violations = ctx.violations
        sub.drifts = ctx.drifts
        if rec['kind'] == 'packing':
            _check_packing(sub, sub.n(150, 3000))
        else:
            _check_codes(sub, sub.n(300, 6000))
    elif 'first_differences' in rec:
        # a record of a broken correspondence: re-run the recorded cases
        b = Batch(ctx, 'replay')
        for d in rec['first_differences']:
            c = d.get('case')
            if isinstance(c, dict) and isinstance(c.get('case'), dict):
                b.add(c['case'])
        if b.items:
            b.run()
        if any(isinstance(d.get('case'), str) for d in rec['first_differences']):
            sub = core.Ctx(ctx.pid, rec.get('tier', 'quick'), rec.get('seed', 0))
            sub.violations = ctx.violations
            sub.drifts = ctx.drifts
            _check_packing(sub, sub.n(150, 3000))
            _check_codes(sub, sub.n(300, 6000))
        for d in ctx.drifts[before[1]:]:
            print('DRIFT %s: implementation %s, model %s' % (d['correspondence'], str(d['impl'])[:120], str(d['model'])[:120]))
    return (len(ctx.violations), len(ctx.drifts)) == before
