"""Shared check machinery of C01 / C02 / C04 on top of `ptgen`.

One *evaluation* = one case (template spec + parameters + mappings) run through the real code
(`ptgen.observe`), through the Lean program-side model `QP.PT.createProgram` (correspondence) and judged
against the Lean spec `QP.PT.denote` / `templateDuration`.  What is compared depends on the aspect:
  'samples'   (C01)  channel set, every sample on the grid, error class
  'windows'   (C02)  measurement windows as a multiset
  'durations' (C04)  Loop.duration, waveform duration, sum of pieces, template duration
"""
from __future__ import annotations

import fractions
import hashlib
import json
import multiprocessing
import os
import random
from typing import Any, Callable, Dict, List, Optional

import core
import ptgen

F = fractions.Fraction


# ------------------------------------------------------------------------------------------------
# worker: everything that touches qupulse for one case
# ------------------------------------------------------------------------------------------------

def make_case(desc: dict) -> Optional[dict]:
    """desc -> case. Families: random / exhaustive / malformed / given."""
    fam = desc['family']
    rng = random.Random(desc['seed'])
    if fam == 'given':
        return desc['case']
    if fam == 'random':
        return ptgen.random_case(rng, desc.get('depth', 4), desc.get('stream', 'dyadic'), **desc.get('gen', {}))
    if fam == 'malformed':
        for _ in range(12):
            base = ptgen.random_case(rng, desc.get('depth', 3))
            base['spec'] = ptgen.strip(base['spec'])
            c = ptgen.malform(rng, base)
            if c is not None:
                return c
        return None
    if fam == 'exhaustive':
        return ptgen.exhaustive_case(desc['spec'])
    if fam == 'custom':
        return desc['make'](rng)
    raise core.MachineryError('unknown family %r' % fam)


def work(desc: dict) -> Optional[dict]:
    """Runs in a worker process. Returns a picklable record or None if the case could not be drawn."""
    import warnings
    warnings.filterwarnings('ignore')
    core.ensure_repo_on_path()
    case = make_case(desc)
    if case is None:
        return None
    rng = random.Random(desc['seed'] ^ 0x5bd1e995)
    want_samples = desc.get('samples', True)
    want_windows = desc.get('windows', True)
    try:
        obs = ptgen.observe(case, rng, grid=desc.get('grid'), want_samples=want_samples, want_windows=want_windows)
    except core.MachineryError:
        raise
    pt = obs['pt']
    skip = []
    if not want_samples:
        skip.append('samples')
    if not want_windows:
        skip.append('windows')
    if desc.get('skip_spec'):
        skip.append('spec')
    line = ptgen.request_line(desc.get('pid', 'c01'), pt, case, obs['grid'], skip)
    cm_full = {c: c for c in pt.defined_channels}
    cm_full.update(case.get('cm') or {})
    meta = {'kinds': ptgen.spec_kinds(case['spec']), 'depth': ptgen.spec_depth(case['spec']),
            'keep': ptgen.all_atoms_keep_channel(pt, cm_full),
            'pf11': sorted(pf11_channels(pt, cm_full)),
            'drops': any(v is None for v in cm_full.values()) or _has_drop(case['spec'])}
    return {'case': ptgen.case_json(case), 'impl': obs['impl'], 'grid': obs['grid'], 'line': line, 'meta': meta,
            'family': desc['family'], 'label': desc.get('label', desc['family'])}


def _has_drop(spec) -> bool:
    for n in ptgen.spec_nodes(spec):
        if n['k'] == 'map' and n.get('cm') and any(o is None for _, o in n['cm']):
            return True
    return False


def pf11_channels(pt, cm: Dict[str, Optional[str]], affected: frozenset = frozenset()) -> set:
    """Known-finding class PF-11: outer names of channels that a ParallelChannelPT overwrites while it sits
    below an ArithmeticPT whose scalar applies to that channel or below another ParallelChannelPT that
    overwrites the same channel.  `affected` = outer channel names touched by enclosing transformations."""
    import qupulse.pulses as qp
    from qupulse.pulses.multi_channel_pulse_template import ParallelChannelPulseTemplate
    from qupulse.pulses.arithmetic_pulse_template import ArithmeticPulseTemplate, ArithmeticAtomicPulseTemplate
    from qupulse.pulses.time_reversal_pulse_template import TimeReversalPulseTemplate
    t = type(pt)
    if t is qp.MappingPT:
        return pf11_channels(pt.template, pt.get_updated_channel_mapping(cm), affected)
    if t is qp.SequencePT:
        out = set()
        for s in pt.subtemplates:
            out |= pf11_channels(s, cm, affected)
        return out
    if t in (qp.RepetitionPT, qp.ForLoopPT):
        return pf11_channels(pt.body, cm, affected)
    if t is TimeReversalPulseTemplate:
        return pf11_channels(pt._inner, cm, affected)
    if t is ParallelChannelPulseTemplate:
        own = {cm.get(c) for c in pt.overwritten_channels if cm.get(c) is not None}
        return (own & affected) | pf11_channels(pt.template, cm, affected | frozenset(own))
    if t is ArithmeticPulseTemplate:
        sc = pt._scalar
        if isinstance(sc, dict):
            touched = {cm.get(c) for c in sc if cm.get(c) is not None}
            if pt._pulse_template is pt.rhs and pt._arithmetic_operator == '-':
                touched = {cm.get(c) for c in pt.defined_channels if cm.get(c) is not None}
        else:
            touched = {cm.get(c) for c in pt.defined_channels if cm.get(c) is not None}
        return pf11_channels(pt._pulse_template, cm, affected | frozenset(touched))
    # atomic templates evaluate their wrappers through build_waveform: the parallel transformation is
    # applied to the inner waveform first there, so the defect does not occur below an atomic template
    return set()


# ------------------------------------------------------------------------------------------------
# comparison impl <-> model, judge impl <-> spec
# ------------------------------------------------------------------------------------------------

def diff_model(impl: dict, model: dict, tdur_model, aspects) -> List[str]:
    """observable differences between the real code and the Lean program-side model"""
    d: List[str] = []
    if impl['status'] != model['status']:
        return ['status: impl %s%s, model %s%s' % (impl['status'], ':' + impl.get('error', '') if impl['status'] == 'error' else '',
                                                  model['status'], ':' + model.get('error', '') if model['status'] == 'error' else '')]
    if impl['status'] == 'error':
        if impl['error'] != model['error']:
            d.append('error class: impl %s, model %s' % (impl['error'], model['error']))
        return d
    if impl['status'] == 'empty':
        return d
    if impl['chans'] != model['chans']:
        d.append('channels: impl %s, model %s' % (impl['chans'], model['chans']))
    if impl['dur'] != model['dur']:
        d.append('duration: impl %s, model %s' % (impl['dur'], model['dur']))
    if 'durations' in aspects:
        if impl['wfdur'] != model.get('wfdur'):
            d.append('waveform duration: impl %s, model %s' % (impl['wfdur'], model.get('wfdur')))
        if impl['pieces'] != model.get('pieces'):
            d.append('sum of pieces: impl %s, model %s' % (impl['pieces'], model.get('pieces')))
    if 'samples' in aspects and isinstance(impl['chans'], list) and impl['chans'] == model['chans']:
        for ch in impl['chans']:
            iv = impl['samples'].get(ch)
            mv = model['samples'].get(ch)
            if iv is None:
                continue
            if isinstance(iv, str):
                d.append('sampling channel %s: impl %s' % (ch, iv))
                continue
            if mv is None or len(iv) != len(mv):
                d.append('sampling channel %s: model has no samples' % ch)
                continue
            bad = [(i, a, b) for i, (a, b) in enumerate(zip(iv, mv)) if a != b]
            if bad:
                d.append('samples on %s differ at %d of %d grid points, first at index %d: impl %s, model %s'
                         % (ch, len(bad), len(iv), bad[0][0], bad[0][1], bad[0][2]))
    if 'windows' in aspects:
        if impl.get('windows') != model.get('windows'):
            d.append('windows: impl %s, model %s' % (_short(impl.get('windows')), _short(model.get('windows'))))
    return d


def _short(x, n=6):
    if isinstance(x, list) and len(x) > n:
        return '%s … (%d)' % (x[:n], len(x))
    return str(x)


def fmt_w(ws):
    return [(n, str(b), str(l)) for n, b, l in ws]


def judge(rec: dict, reply: dict, aspects) -> List[dict]:
    """Property violations of the *implementation's* observables, decided by the Lean spec values.
    Each entry: {'clause', 'what', 'channel'?}"""
    impl, spec = rec['impl'], reply['spec']
    grid = rec['grid']
    v: List[dict] = []
    if spec['status'] == 'skipped':
        return v
    if impl['status'] == 'error':
        return v        # not accepted: nothing is instantiated (error classes are a correspondence matter)
    if spec['status'] == 'error':
        return v        # the spec does not define this input (counted by the caller)
    if impl['status'] == 'empty':
        if spec['status'] != 'empty':
            v.append({'clause': 'empty', 'what': 'no program is produced but the template denotes a pulse of duration %s on '
                      'channels %s' % (spec['dur'], spec['chans'])})
        return v
    if spec['status'] == 'empty':
        v.append({'clause': 'empty', 'what': 'a program of duration %s is produced but the template denotes the empty pulse'
                  % impl['dur']})
        return v
    if 'samples' in aspects:
        if impl['chans'] == 'nonuniform':
            v.append({'clause': 'channels', 'what': 'played pieces define different channel sets'})
        elif impl['chans'] != spec['chans']:
            v.append({'clause': 'channels', 'what': 'program channels %s, template denotes %s' % (impl['chans'], spec['chans'])})
        else:
            for ch in impl['chans']:
                iv = impl['samples'].get(ch)
                adm = spec['adm'].get(ch)
                if iv is None or adm is None:
                    continue
                if isinstance(iv, str):
                    v.append({'clause': 'sample-raises', 'channel': ch,
                              'what': 'sampling channel %s of the program raises %s' % (ch, iv)})
                    continue
                for t, a, ok in zip(grid, iv, adm):
                    if a == 'nan':
                        v.append({'clause': 'nan', 'channel': ch, 'what': 'sample on %s at t=%s is NaN' % (ch, t)})
                        break
                    if a not in ok:
                        v.append({'clause': 'value', 'channel': ch,
                                  'what': 'sample on %s at t=%s is %s, the template denotes %s'
                                          % (ch, t, a, ' or '.join(str(x) for x in ok) or 'nothing')})
                        break
    if 'windows' in aspects:
        iw = impl.get('windows')
        if isinstance(iw, str):
            v.append({'clause': 'windows-raise', 'what': 'get_measurement_windows raises %s' % iw})
        elif iw != spec['windows']:
            missing = _multiset_diff(spec['windows'], iw)
            extra = _multiset_diff(iw, spec['windows'])
            v.append({'clause': 'windows', 'what': 'measurement windows differ from the declared ones: missing %s, '
                      'unexpected %s' % (_short(fmt_w(missing)), _short(fmt_w(extra)))})
    if 'durations' in aspects:
        if not (impl['dur'] == impl['wfdur'] == impl['pieces']):
            v.append({'clause': 'durations', 'what': 'Loop.duration %s, waveform duration %s, sum of played pieces %s disagree'
                      % (impl['dur'], impl['wfdur'], impl['pieces'])})
        if impl['dur'] != spec['dur']:
            v.append({'clause': 'durations', 'what': 'program duration %s, the template denotes a pulse of duration %s'
                      % (impl['dur'], spec['dur'])})
    return v


def _multiset_diff(a, b):
    b = list(b)
    out = []
    for x in a:
        if x in b:
            b.remove(x)
        else:
            out.append(x)
    return out


def judge_tdur(rec: dict, reply: dict, exact=True) -> List[dict]:
    """C04: the template's duration expression at the parameters equals the program duration (0 for an empty
    program) whenever every atomic leaf keeps a channel."""
    impl = rec['impl']
    v: List[dict] = []
    if impl['status'] == 'error' or impl['tdur'][0] != 'ok' or not rec['meta']['keep']:
        return v
    td_dec, td_bin = impl['tdur'][1], impl['tdur'][2]
    pd = impl['dur'] if impl['status'] == 'ok' else F(0)
    if exact:
        if td_dec != pd and td_bin != pd:
            v.append({'clause': 'template-duration',
                      'what': 'template duration expression evaluates to %s, the program lasts %s' % (td_dec, pd)})
    else:
        scale = max(abs(pd), F(1))
        if abs(td_bin - pd) > scale * F(1, 2 ** 40):
            v.append({'clause': 'template-duration',
                      'what': 'template duration expression evaluates to %s (float), the program lasts %s' % (td_bin, pd)})
    return v


# ------------------------------------------------------------------------------------------------
# batch evaluation
# ------------------------------------------------------------------------------------------------

def run_descs(ctx: core.Ctx, descs: List[dict], workers: Optional[int] = None) -> List[dict]:
    """observe all cases (in worker processes), ask the model, attach the parsed reply"""
    if workers is None:
        workers = int(os.environ.get('VERIF_WORKERS', '0')) or (4 if ctx.quick else 14)
    workers = max(1, min(workers, len(descs) // 8 or 1))
    if workers > 1:
        mp = multiprocessing.get_context('fork')
        with mp.Pool(workers) as pool:
            recs = pool.map(work, descs, chunksize=max(1, len(descs) // (workers * 8)))
    else:
        recs = [work(d) for d in descs]
    recs = [r for r in recs if r is not None]
    answers = core.Lean.run([r['line'] for r in recs])
    for r, a in zip(recs, answers):
        r['reply'] = ptgen.parse_reply(a)
    return recs


def replay_record(rec: dict, what: str, extra: Optional[dict] = None) -> dict:
    d = {'kind': 'pt-case', 'case': rec['case'], 'grid': [str(t) for t in rec['grid']], 'label': rec.get('label')}
    if extra:
        d.update(extra)
    return d


def case_key(rec: dict) -> str:
    return rec['line']
