"""Shared check machinery of C01 / C02 / C04 on top of `ptgen`.

One *evaluation* = one case (template spec + parameters + mappings) run through the real code
(`ptgen.observe`), through the Lean program-side model `QP.PT.createProgram` (correspondence) and judged
against the Lean spec `QP.PT.denote` / `templateDuration`.  What is compared depends on the aspect:
  'samples'   (C01)  channel set, every sample on the grid, error class
  'windows'   (C02)  measurement windows as a multiset
  'durations' (C04)  Loop.duration, waveform duration, sum of pieces, template duration
"""
from __future__ import annotations

import fractions
import hashlib
import json
import multiprocessing
import os
import random
from typing import Any, Callable, Dict, List, Optional

import core
import ptgen

F = fractions.Fraction


# ------------------------------------------------------------------------------------------------
# worker: everything that touches qupulse for one case
# ------------------------------------------------------------------------------------------------

def make_case(desc: dict) -> Optional[dict]:
    """desc -> case. Families: random / exhaustive / malformed / given."""
    fam = desc['family']
    rng = random.Random(desc['seed'])
    if fam == 'given':
        return desc['case']
    if fam == 'random':
        return ptgen.random_case(rng, desc.get('depth', 4), desc.get('stream', 'dyadic'), **desc.get('gen', {}))
    if fam == 'malformed':
        for _ in range(12):
            base = ptgen.random_case(rng, desc.get('depth', 3))
            base['spec'] = ptgen.strip(base['spec'])
            c = ptgen.malform(rng, base)
            if c is not None:
                return c
        return None
    if fam == 'exhaustive':
        return ptgen.exhaustive_case(desc['spec'])
    if fam == 'custom':
        return desc['make'](rng)
    raise core.MachineryError('unknown family %r' % fam)


def work(desc: dict) -> Optional[dict]:
    """Runs in a worker process. Returns a picklable record or None if the case could not be drawn."""
    import warnings
    warnings.filterwarnings('ignore')
    core.ensure_repo_on_path()
    try:
        case = make_case(desc)
    except core.MachineryError:
        raise
    except Exception as exc:  # noqa -- (qupulse exceptions do not always survive pickling: a pool worker that raises one hangs the run)
        raise core.MachineryError('case generator of family %s failed: %s: %s'
                                  % (desc.get('label', desc['family']), type(exc).__name__, str(exc)[:300]))
    if case is None:
        return None
    rng = random.Random(desc['seed'] ^ 0x5bd1e995)
    want_samples = desc.get('samples', True)
    want_windows = desc.get('windows', True)
    try:
        grid = desc.get('grid')
        if grid is None and case.get('grid'):
            grid = [F(x) for x in case['grid']]       # a family that chooses its own sample times
        obs = ptgen.observe(case, rng, grid=grid, want_samples=want_samples, want_windows=want_windows)
    except core.MachineryError:
        raise
    pt = obs['pt']
    skip = []
    if not want_samples:
        skip.append('samples')
    if not want_windows:
        skip.append('windows')
    if desc.get('skip_spec'):
        skip.append('spec')
    line = ptgen.request_line(desc.get('pid', 'c01'), pt, case, obs['grid'], skip)
    cm_full = {c: c for c in pt.defined_channels}
    cm_full.update(ptgen.cm_dict(case))
    meta = {'kinds': ptgen.spec_kinds(case['spec']), 'depth': ptgen.spec_depth(case['spec']),
            'keep': ptgen.all_atoms_keep_channel(pt, cm_full),
            'keep_enforced': bool(case.get('enforced')) and keep_or_enforced(pt, cm_full),
            'pf11': sorted(ptgen.chan_atom(c) for c in pf11_channels(pt, cm_full)),
            'falsy_arith': sorted(ptgen.chan_atom(c) for c in falsy_arith_channels(pt, cm_full)),
            'drops': any(v is None for v in cm_full.values()) or _has_drop(case['spec']),
            'undefined_params': sorted(str(n) for n in set(pt.parameter_names) - set(case['params']))}
    return {'case': ptgen.case_json(case), 'impl': obs['impl'], 'grid': obs['grid'], 'line': line, 'meta': meta,
            'family': desc['family'], 'label': desc.get('label', desc['family']),
            'toleranced': bool(desc.get('toleranced')) or desc.get('stream') == 'decimal' or desc.get('label') == 'huge-counts',
            'skip_spec': bool(desc.get('skip_spec'))}


def keep_or_enforced(pt, cm) -> bool:
    """like `ptgen.all_atoms_keep_channel`, but an AtomicMultiChannelPT with an enforced `duration=` only needs ONE
    sub-template that keeps a channel: its duration is the enforced one whatever is dropped inside"""
    import qupulse.pulses as qp
    from qupulse.pulses.multi_channel_pulse_template import ParallelChannelPulseTemplate
    from qupulse.pulses.arithmetic_pulse_template import ArithmeticPulseTemplate, ArithmeticAtomicPulseTemplate
    from qupulse.pulses.time_reversal_pulse_template import TimeReversalPulseTemplate
    t = type(pt)
    if t is qp.AtomicMultiChannelPT and pt._duration is not None:
        return any(keep_or_enforced(s, cm) for s in pt.subtemplates)
    if t is qp.MappingPT:
        return keep_or_enforced(pt.template, pt.get_updated_channel_mapping(cm))
    if t is qp.SequencePT or t is qp.AtomicMultiChannelPT:
        return all(keep_or_enforced(s, cm) for s in pt.subtemplates)
    if t in (qp.RepetitionPT, qp.ForLoopPT):
        return keep_or_enforced(pt.body, cm)
    if t is ParallelChannelPulseTemplate:
        return keep_or_enforced(pt.template, cm)
    if t is ArithmeticPulseTemplate:
        return keep_or_enforced(pt._pulse_template, cm)
    if t is ArithmeticAtomicPulseTemplate:
        return keep_or_enforced(pt.lhs, cm) and keep_or_enforced(pt.rhs, cm)
    if t is TimeReversalPulseTemplate:
        return keep_or_enforced(pt._inner, cm)
    return any(cm.get(c, c) is not None for c in pt.defined_channels)


def _has_drop(spec) -> bool:
    for n in ptgen.spec_nodes(spec):
        if n['k'] == 'map' and n.get('cm') and any(o is None for _, o in n['cm']):
            return True
    return False


def pf11_channels(pt, cm: Dict[str, Optional[str]], affected: frozenset = frozenset()) -> set:
    """Known-finding class PF-11: outer names of channels that a ParallelChannelPT overwrites while it sits
    below an ArithmeticPT whose scalar applies to that channel or below another ParallelChannelPT that
    overwrites the same channel.  `affected` = outer channel names touched by enclosing transformations."""
    import qupulse.pulses as qp
    from qupulse.pulses.multi_channel_pulse_template import ParallelChannelPulseTemplate
    from qupulse.pulses.arithmetic_pulse_template import ArithmeticPulseTemplate, ArithmeticAtomicPulseTemplate
    from qupulse.pulses.time_reversal_pulse_template import TimeReversalPulseTemplate
    t = type(pt)
    if t is qp.MappingPT:
        return pf11_channels(pt.template, pt.get_updated_channel_mapping(cm), affected)
    if t is qp.SequencePT:
        out = set()
        for s in pt.subtemplates:
            out |= pf11_channels(s, cm, affected)
        return out
    if t in (qp.RepetitionPT, qp.ForLoopPT):
        return pf11_channels(pt.body, cm, affected)
    if t is TimeReversalPulseTemplate:
        return pf11_channels(pt._inner, cm, affected)
    if t is ParallelChannelPulseTemplate:
        own = {cm.get(c) for c in pt.overwritten_channels if cm.get(c) is not None}
        return (own & affected) | pf11_channels(pt.template, cm, affected | frozenset(own))
    if t is ArithmeticPulseTemplate:
        sc = pt._scalar
        if isinstance(sc, dict):
            touched = {cm.get(c) for c in sc if cm.get(c) is not None}
            if pt._pulse_template is pt.rhs and pt._arithmetic_operator == '-':
                touched = {cm.get(c) for c in pt.defined_channels if cm.get(c) is not None}
        else:
            touched = {cm.get(c) for c in pt.defined_channels if cm.get(c) is not None}
        return pf11_channels(pt._pulse_template, cm, affected | frozenset(touched))
    # atomic templates evaluate their wrappers through build_waveform: the parallel transformation is
    # applied to the inner waveform first there, so the defect does not occur below an atomic template
    return set()


def falsy_arith_channels(pt, cm: Dict[Any, Any]) -> set:
    """Known-finding class PF-C01a: outer names of channels with a *falsy* outer id (the integer 0, the empty string)
    that a scalar ArithmeticPulseTemplate's pulse operand defines.  `ArithmeticPulseTemplate._get_scalar_value` /
    `_get_transformation` test `if channel_mapping[channel]` instead of `is not None`, so the scalar operation is
    silently not applied to such a channel (program path and atomic `build_waveform` path alike)."""
    import qupulse.pulses as qp
    from qupulse.pulses.multi_channel_pulse_template import ParallelChannelPulseTemplate
    from qupulse.pulses.arithmetic_pulse_template import ArithmeticPulseTemplate, ArithmeticAtomicPulseTemplate
    from qupulse.pulses.time_reversal_pulse_template import TimeReversalPulseTemplate
    t = type(pt)
    if t is qp.MappingPT:
        return falsy_arith_channels(pt.template, {i: (None if o is None else cm.get(o)) for i, o in pt.channel_mapping.items()})
    if t is qp.SequencePT or t is qp.AtomicMultiChannelPT:
        out = set()
        for s in pt.subtemplates:
            out |= falsy_arith_channels(s, cm)
        return out
    if t in (qp.RepetitionPT, qp.ForLoopPT):
        return falsy_arith_channels(pt.body, cm)
    if t is TimeReversalPulseTemplate:
        return falsy_arith_channels(pt._inner, cm)
    if t is ParallelChannelPulseTemplate:
        return falsy_arith_channels(pt.template, cm)
    if t is ArithmeticAtomicPulseTemplate:
        return falsy_arith_channels(pt.lhs, cm) | falsy_arith_channels(pt.rhs, cm)
    if t is ArithmeticPulseTemplate:
        own = {cm.get(c) for c in pt._pulse_template.defined_channels}
        own = {o for o in own if o is not None and not o}
        return own | falsy_arith_channels(pt._pulse_template, cm)
    return set()


# ------------------------------------------------------------------------------------------------
# comparison impl <-> model, judge impl <-> spec
# ------------------------------------------------------------------------------------------------

def diff_model(impl: dict, model: dict, tdur_model, aspects) -> List[str]:
    """observable differences between the real code and the Lean program-side model"""
    d: List[str] = []
    if impl['status'] != model['status']:
        return ['status: impl %s%s, model %s%s' % (impl['status'], ':' + impl.get('error', '') if impl['status'] == 'error' else '',
                                                  model['status'], ':' + model.get('error', '') if model['status'] == 'error' else '')]
    if impl['status'] == 'error':
        if impl['error'] != model['error']:
            d.append('error class: impl %s, model %s' % (impl['error'], model['error']))
        return d
    if impl['status'] == 'empty':
        return d
    if impl['chans'] != model['chans']:
        d.append('channels: impl %s, model %s' % (impl['chans'], model['chans']))
    if impl['dur'] != model['dur']:
        d.append('duration: impl %s, model %s' % (impl['dur'], model['dur']))
    if 'durations' in aspects:
        if impl['wfdur'] != model.get('wfdur'):
            d.append('waveform duration: impl %s, model %s' % (impl['wfdur'], model.get('wfdur')))
        if impl['pieces'] != model.get('pieces'):
            d.append('sum of pieces: impl %s, model %s' % (impl['pieces'], model.get('pieces')))
    if 'samples' in aspects and isinstance(impl['chans'], list) and impl['chans'] == model['chans']:
        for ch in impl['chans']:
            iv = impl['samples'].get(ch)
            mv = model['samples'].get(ch)
            if iv is None:
                continue
            if isinstance(iv, str):
                d.append('sampling channel %s: impl %s' % (ch, iv))
                continue
            if mv is None or len(iv) != len(mv):
                d.append('sampling channel %s: model has no samples' % ch)
                continue
            bad = [(i, a, b) for i, (a, b) in enumerate(zip(iv, mv)) if a != b]
            if bad:
                d.append('samples on %s differ at %d of %d grid points, first at index %d: impl %s, model %s'
                         % (ch, len(bad), len(iv), bad[0][0], bad[0][1], bad[0][2]))
    if 'windows' in aspects:
        if impl.get('windows') != model.get('windows'):
            d.append('windows: impl %s, model %s' % (_short(impl.get('windows')), _short(model.get('windows'))))
    return d


def _short(x, n=6):
    if isinstance(x, list) and len(x) > n:
        return '%s … (%d)' % (x[:n], len(x))
    return str(x)


def fmt_w(ws):
    return [(n, str(b), str(l)) for n, b, l in ws]


def judge(rec: dict, reply: dict, aspects) -> List[dict]:
    """Property violations of the *implementation's* observables, decided by the Lean spec values.
    Each entry: {'clause', 'what', 'channel'?}"""
    impl, spec = rec['impl'], reply['spec']
    grid = rec['grid']
    v: List[dict] = []
    if spec['status'] == 'skipped':
        # no denotation was asked for (huge counts): the implementation's own three durations still have to agree
        if 'durations' in aspects and impl['status'] == 'ok' and not (impl['dur'] == impl['wfdur'] == impl['pieces']):
            v.append({'clause': 'durations', 'what': 'Loop.duration %s, waveform duration %s (to_waveform), sum of played '
                      'pieces %s disagree' % (impl['dur'], impl['wfdur'], impl['pieces'])})
        return v
    if impl['status'] == 'error':
        return v        # not accepted: nothing is instantiated (error classes are a correspondence matter)
    if spec['status'] == 'error':
        return v        # the spec does not define this input (counted by the caller)
    if impl['status'] == 'empty':
        if spec['status'] != 'empty':
            v.append({'clause': 'empty', 'what': 'no program is produced but the template denotes a pulse of duration %s on '
                      'channels %s' % (spec['dur'], spec['chans'])})
        return v
    if spec['status'] == 'empty':
        v.append({'clause': 'empty', 'what': 'a program of duration %s is produced but the template denotes the empty pulse'
                  % impl['dur']})
        return v
    if 'samples' in aspects:
        if impl['chans'] == 'nonuniform':
            v.append({'clause': 'channels', 'what': 'played pieces define different channel sets'})
        elif impl['chans'] != spec['chans']:
            v.append({'clause': 'channels', 'what': 'program channels %s, template denotes %s' % (impl['chans'], spec['chans'])})
        else:
            for ch in impl['chans']:
                iv = impl['samples'].get(ch)
                adm = spec['adm'].get(ch)
                if iv is None or adm is None:
                    continue
                gm = impl.get('grid_modified')
                hint = (' (all channels are sampled on one time array; sampling channel %s before had overwritten it: '
                        'times[%d] was %s and is %s)' % (gm['channel'], gm['index'], gm['t'], gm['now'])) \
                    if gm and gm['channel'] != ch else ''
                if isinstance(iv, str):
                    v.append({'clause': 'sample-raises', 'channel': ch,
                              'what': 'sampling channel %s of the program raises %s%s' % (ch, iv, hint)})
                    continue
                for t, a, ok in zip(grid, iv, adm):
                    if a == 'nan':
                        v.append({'clause': 'nan', 'channel': ch, 'what': 'sample on %s at t=%s is NaN' % (ch, t)})
                        break
                    if a not in ok:
                        v.append({'clause': 'value', 'channel': ch,
                                  'what': 'sample on %s at t=%s is %s, the template denotes %s%s'
                                          % (ch, t, a, ' or '.join(str(x) for x in ok) or 'nothing', hint)})
                        break
        # the voltages are played at the times the caller asked for: get_sampled must not change the caller's time
        # array, and a channel sampled after other channels on the same array gets the same voltages as on a copy
        gm = impl.get('grid_modified')
        if gm:
            v.append({'clause': 'grid-modified', 'channel': gm['channel'],
                      'what': 'get_sampled(%s, times) of the program\'s waveform overwrote the caller\'s sample time array: '
                              'times[%d] was %s and is %s afterwards (the voltages of the channels sampled next on the same '
                              'array, and the time axis plotting.render returns, belong to other times)'
                              % (gm['channel'], gm['index'], gm['t'], gm['now'])})
        sg = impl.get('shared_grid')
        if sg:
            if sg.get('raises'):
                what = ('played waveform #%d: sampling channel %s on the time array used for channel(s) %s before raises %s'
                        % (sg['leaf'], sg['channel'], ','.join(sg['after']) or '-', sg['raises']))
            elif sg.get('shared') is not None:
                what = ('played waveform #%d: channel %s sampled on the time array used for channel(s) %s before is %s at '
                        't=%s, on a private copy of the same times it is %s'
                        % (sg['leaf'], sg['channel'], ','.join(sg['after']) or '-', sg['shared'], sg['t'], sg['private']))
            else:
                what = ('played waveform #%d: sampling channel %s overwrote the caller\'s sample time array (t=%s became %s)'
                        % (sg['leaf'], sg['channel'], sg['t'], sg['time_now']))
            v.append({'clause': 'shared-grid', 'channel': sg['channel'], 'what': what})
    if 'windows' in aspects:
        iw = impl.get('windows')
        if isinstance(iw, str):
            v.append({'clause': 'windows-raise', 'what': 'get_measurement_windows raises %s' % iw})
        elif iw != spec['windows']:
            missing = _multiset_diff(spec['windows'], iw)
            extra = _multiset_diff(iw, spec['windows'])
            v.append({'clause': 'windows', 'what': 'measurement windows differ from the declared ones: missing %s, '
                      'unexpected %s' % (_short(fmt_w(missing)), _short(fmt_w(extra)))})
    if 'durations' in aspects:
        if not (impl['dur'] == impl['wfdur'] == impl['pieces']):
            v.append({'clause': 'durations', 'what': 'Loop.duration %s, waveform duration %s, sum of played pieces %s disagree'
                      % (impl['dur'], impl['wfdur'], impl['pieces'])})
        if impl['dur'] != spec['dur']:
            v.append({'clause': 'durations', 'what': 'program duration %s, the template denotes a pulse of duration %s'
                      % (impl['dur'], spec['dur'])})
    return v


def _multiset_diff(a, b):
    b = list(b)
    out = []
    for x in a:
        if x in b:
            b.remove(x)
        else:
            out.append(x)
    return out


def judge_tdur(rec: dict, reply: dict, exact=True) -> List[dict]:
    """C04: the template's duration expression at the parameters equals the program duration (0 for an empty
    program) whenever every atomic leaf keeps a channel."""
    impl = rec['impl']
    v: List[dict] = []
    # (a template's duration does not know about dropped channels - except where it is an *enforced* duration:
    #  AtomicMultiChannelPT(..., duration=...) of a case marked 'enforced')
    if impl['status'] == 'error' or impl['tdur'][0] != 'ok' or not (rec['meta']['keep'] or rec['meta'].get('keep_enforced')):
        return v
    td_dec, td_bin = impl['tdur'][1], impl['tdur'][2]
    pd = impl['dur'] if impl['status'] == 'ok' else F(0)
    if exact:
        if td_dec != pd and td_bin != pd:
            v.append({'clause': 'template-duration',
                      'what': 'template duration expression evaluates to %s, the program lasts %s' % (td_dec, pd)})
    else:
        scale = max(abs(pd), F(1))
        if abs(td_bin - pd) > scale * F(1, 2 ** 40):
            v.append({'clause': 'template-duration',
                      'what': 'template duration expression evaluates to %s (float), the program lasts %s' % (td_bin, pd)})
    return v


# ------------------------------------------------------------------------------------------------
# batch evaluation
# ------------------------------------------------------------------------------------------------

def run_descs(ctx: core.Ctx, descs: List[dict], workers: Optional[int] = None) -> List[dict]:
    """observe all cases (in worker processes), ask the model, attach the parsed reply"""
    if workers is None:
        workers = int(os.environ.get('VERIF_WORKERS', '0')) or (6 if ctx.quick else 14)
    workers = max(1, min(workers, len(descs) // 8 or 1))
    if workers > 1:
        mp = multiprocessing.get_context('fork')
        with mp.Pool(workers) as pool:
            recs = pool.map(work, descs, chunksize=max(1, len(descs) // (workers * 8)))
    else:
        recs = [work(d) for d in descs]
    recs = [r for r in recs if r is not None]
    answers = core.Lean.run([r['line'] for r in recs])
    for r, a in zip(recs, answers):
        r['reply'] = ptgen.parse_reply(a)
    return recs


def replay_record(rec: dict, what: str, extra: Optional[dict] = None) -> dict:
    d = {'kind': 'pt-case', 'case': rec['case'], 'grid': [str(t) for t in rec['grid']], 'label': rec.get('label'),
         'toleranced': bool(rec.get('toleranced')), 'skip_spec': bool(rec.get('skip_spec'))}
    if extra:
        d.update(extra)
    return d


def case_key(rec: dict) -> str:
    return rec['line']


# ------------------------------------------------------------------------------------------------
# the generic check driver
# ------------------------------------------------------------------------------------------------

import copy


def spec_candidates(spec):
    """smaller spec trees: replace a node by one of its children, drop sequence parts, drop decorations"""
    out = []

    def rec(node, rebuild):
        for c in ptgen.children(node):
            out.append(rebuild(copy.deepcopy(c)))
        k = node['k']
        if k == 'seq' and len(node['subs']) > 1:
            for i in range(len(node['subs'])):
                n = copy.deepcopy(node)
                del n['subs'][i]
                out.append(rebuild(n))
        for key in ('meas', 'cons'):
            if node.get(key):
                n = copy.deepcopy(node)
                n[key] = []
                out.append(rebuild(n))
            if node.get(key) and len(node[key]) > 1:
                for i in range(len(node[key])):
                    n = copy.deepcopy(node)
                    del n[key][i]
                    out.append(rebuild(n))
        if k == 'rep' and node['count'] not in ('1', '2'):
            for cnt in ('1', '2'):
                n = copy.deepcopy(node)
                n['count'] = cnt
                out.append(rebuild(n))
        if k == 'for' and node['range'] != ['0', '2', '1']:
            n = copy.deepcopy(node)
            n['range'] = ['0', '2', '1']
            out.append(rebuild(n))
        if k == 'table':
            for ci, (ch, es) in enumerate(node['entries']):
                if len(es) > 2:
                    for i in range(len(es)):
                        n = copy.deepcopy(node)
                        del n['entries'][ci][1][i]
                        out.append(rebuild(n))
        if k == 'map':
            for key in ('pm', 'mm'):
                if node.get(key):
                    n = copy.deepcopy(node)
                    n[key] = None
                    out.append(rebuild(n))
        if k in ('seq', 'amulti'):
            for i, c in enumerate(node['subs']):
                def rb(x, i=i, node=node):
                    n = copy.deepcopy(node)
                    n['subs'][i] = x
                    return rebuild(n)
                rec(c, rb)
        elif k == 'aarith':
            for key in ('lhs', 'rhs'):
                def rb(x, key=key, node=node):
                    n = copy.deepcopy(node)
                    n[key] = x
                    return rebuild(n)
                rec(node[key], rb)
        elif 'body' in node:
            def rb(x, node=node):
                n = copy.deepcopy(node)
                n['body'] = x
                return rebuild(n)
            rec(node['body'], rb)

    rec(spec, lambda x: x)
    return out


class Checker:
    """One property check over pulse-template cases: evaluate, diff against the model, judge against the
    spec, classify known findings, shrink violating inputs, report."""

    def __init__(self, ctx: core.Ctx, pid: str, aspects, correspondence: str,
                 want_samples=True, want_windows=True, tdur_exact=True, known_classes=None, unmodelled=()):
        self.ctx = ctx
        self.pid = pid
        self.aspects = tuple(aspects)
        self.correspondence = correspondence
        self.want_samples = want_samples
        self.want_windows = want_windows
        self.tdur_exact = tdur_exact
        # finding id -> predicate(rec, violation) -> bool  (is this violation inside the recorded class?)
        self.known_classes = known_classes or {}
        # open findings whose defective behaviour the Lean program-side model does NOT reproduce (the model plays what
        # the template denotes there): inside the recorded class the model/implementation difference on the excused
        # channel is the finding itself, not drift
        self.unmodelled = set(unmodelled)
        self.open_ids = {k.get('finding') for k in ctx.findings.for_property(pid)}

    # -- descriptors -------------------------------------------------------------------------------
    def desc(self, **kw):
        d = {'pid': self.pid, 'samples': self.want_samples, 'windows': self.want_windows}
        d.update(kw)
        return d

    # -- one record --------------------------------------------------------------------------------
    def assess(self, rec, count=True):
        ctx = self.ctx
        reply, impl = rec['reply'], rec['impl']
        diffs = diff_model(impl, reply['model'], reply['tdur'], self.aspects)
        viols = judge(rec, reply, self.aspects)
        missing_note = None
        if rec['case'].get('fault') == 'missing':
            # A declared parameter was removed from the assignment.  The implementation may legitimately need MORE than
            # the model reads (`RangeScope.keys()` / the eager `map_parameter_values` of atomic templates force enclosing
            # mapped scopes, notes/C01.md "known limits"), and the flavour of a missing-parameter error is not an
            # observable of the property.  Decisive is the property clause: a played node that needs the removed
            # parameter (model and denotation both fail) must not be instantiated.
            model, spec = reply['model'], reply['spec']
            if impl['status'] == 'error' and model['status'] in ('ok', 'empty'):
                if impl['error'] == 'parameter_missing':
                    diffs = [d for d in diffs if not d.startswith('status:')]
                    missing_note = 'missing:implementation-needs-more-than-model'
            elif impl['status'] == 'error' and model['status'] == 'error':
                if impl['error'] != model['error']:
                    diffs = [d for d in diffs if not d.startswith('error class:')]
                    missing_note = 'missing:different-error-flavour'
            elif impl['status'] in ('ok', 'empty') and model['status'] == 'error' and spec['status'] == 'error':
                diffs = [d for d in diffs if not d.startswith('status:')]
                viols.append({'clause': 'missing-parameter-ignored',
                              'what': 'instantiation returns %s although a played node needs a parameter that is not '
                                      'given (declared and not assigned: %s; model: %s, denotation: %s)'
                                      % ('a program' if impl['status'] == 'ok' else 'the empty program',
                                         rec['meta'].get('undefined_params'), model['error'], spec['error'])})
        if 'durations' in self.aspects:
            exact = self.tdur_exact and not rec.get('toleranced')
            viols += judge_tdur(rec, reply, exact=exact)
            # the model of the template's duration expression against the real expression (correspondence)
            mt, it = reply['tdur'], impl['tdur']
            if mt[0] != it[0]:
                # evaluating the symbolic duration of a malformed input may fail in sympy-specific ways (zoo, plain
                # dict lookups): its error class is not an observable of the property
                if not rec['case'].get('fault'):
                    diffs.append('template duration: impl %s, model %s' % (it[:2], mt))
            elif mt[0] == 'ok':
                if exact and mt[1] not in (it[1], it[2]):
                    diffs.append('template duration: impl %s, model %s' % (it[1], mt[1]))
                elif not exact and abs(mt[1] - it[2]) > max(abs(mt[1]), F(1)) * F(1, 2 ** 40):
                    diffs.append('template duration: impl %s, model %s' % (it[2], mt[1]))
            # Lean's exact template duration is the spec value of the program duration
            if mt[0] == 'ok' and impl['status'] != 'error' and rec['meta']['keep']:
                pd = impl['dur'] if impl['status'] == 'ok' else F(0)
                if pd != mt[1] and not any(v['clause'] == 'template-duration' for v in viols):
                    viols.append({'clause': 'template-duration-exact',
                                  'what': 'the program lasts %s, the exact value of the template duration is %s' % (pd, mt[1])})
        known = []
        if viols:
            rest = []
            for v in viols:
                hit = None
                for fid, pred in self.known_classes.items():
                    if fid in self.open_ids and pred(rec, v):
                        hit = fid
                        break
                if hit:
                    known.append((hit, v))
                else:
                    rest.append(v)
            viols = rest
            for fid, v in known:
                # (a violation may lie in several recorded classes; it is attributed to the first one)
                if v.get('channel') is not None and any(u in self.open_ids and u in self.known_classes
                                                        and self.known_classes[u](rec, v) for u in self.unmodelled):
                    diffs = [d for d in diffs if not d.startswith('samples on %s differ' % v['channel'])]
        if count:
            ctx.case(rec['line'], nontrivial=impl['status'] == 'ok' and len(rec['meta']['kinds']) > 1)
            ctx.count('family:' + rec['label'])
            ctx.count('impl:' + impl['status'] + (':' + impl['error'] if impl['status'] == 'error' else ''))
            st = reply['spec']['status']
            ctx.count('spec:' + st + (':' + reply['spec']['error'] if st == 'error' else ''))
            for k in set(rec['meta']['kinds']):
                ctx.count('kind:' + k)
            ctx.count('depth:%d' % rec['meta']['depth'])
            if rec['case'].get('fault'):
                ctx.count('fault:' + rec['case']['fault'])
            if missing_note:
                ctx.count(missing_note)
            if 't' in rec['case']['params'] or any(n['k'] == 'for' and n['idx'] == 't' for n in ptgen.spec_nodes(rec['case']['spec'])):
                ctx.count('scope-entry-named-t')
            if impl['status'] == 'ok':
                if 'samples' in self.aspects:
                    ctx.count('grid-points', len(rec['grid']) * (len(impl['chans']) if isinstance(impl['chans'], list) else 0))
                    if st == 'ok':
                        amb = sum(1 for vals in reply['spec'].get('adm', {}).values() for pv in vals if len(pv) > 1)
                        if amb:
                            ctx.count('grid-points-at-junction-inside-reversal', amb)
                if 'windows' in self.aspects and isinstance(impl.get('windows'), list):
                    ctx.count('windows', len(impl['windows']))
                    if impl['windows']:
                        ctx.count('programs-with-windows')
                if rec['meta']['drops']:
                    ctx.count('with-dropped-channel')
                if not rec['meta']['keep']:
                    ctx.count('some-atom-lost-all-channels')
            if impl['status'] == 'ok' and st == 'error':
                ctx.count('spec-undefined-but-instantiated')
        return diffs, viols, known

    def summary(self, rec) -> str:
        extra = ''
        if rec['case'].get('ptypes'):
            extra += ' parameter-types=%s' % rec['case']['ptypes']
        if rec['case'].get('reuse'):
            extra += ' mapping-dicts=caller-owned,re-used'
        if rec['case'].get('single'):
            extra += ' to_single_waveform=%s' % rec['case']['single']
        return 'kinds=%s params=%s cm=%s mm=%s%s' % ('/'.join(rec['meta']['kinds']), rec['case']['params'],
                                                    rec['case']['cm'], rec['case']['mm'], extra)

    def report(self, rec, diffs, viols, known):
        ctx = self.ctx
        for fid, v in known[:1]:
            # one line per finding and run (plus the recorded witness); further hits are only counted
            if not ctx.extra.get('printed:' + fid):
                ctx.extra['printed:' + fid] = True
                ctx.known_finding(fid, v['what'])
            ctx.count('known:' + fid)
        if viols:
            ctx.disagreements += 1
            n_shrunk = ctx.extra.setdefault('shrunk', 0)
            small = rec
            if n_shrunk < 4:
                ctx.extra['shrunk'] = n_shrunk + 1
                small = self.shrink(rec, viols[0])
            ctx.violation('%s [%s]' % (viols[0]['what'], self.summary(small)),
                          replay_record(small, viols[0]['what'], {'clause': viols[0]['clause'], 'original': rec['case']}))
        elif diffs:
            ctx.drift(self.correspondence, rec['case'], diffs[:3], 'QP.PT')

    # -- search ------------------------------------------------------------------------------------
    def evaluate_given(self, cases, label='search', **kw):
        recs = []
        for i, c in enumerate(cases):
            try:
                r = work(self.desc(family='given', seed=i, case=c, label=label, **kw))
            except core.MachineryError:
                raise
            except Exception:  # noqa -- a candidate that cannot be constructed
                r = None
            if r is not None:
                recs.append(r)
        if not recs:
            return []
        for r, a in zip(recs, core.Lean.run([r['line'] for r in recs])):
            r['reply'] = ptgen.parse_reply(a)
        return recs

    def shrink(self, rec, viol, rounds=8):
        """delta debugging on the spec tree; a candidate is kept if the judge reports the same clause"""
        best = rec
        for _ in range(rounds):
            cases = []
            for s in spec_candidates(best['case']['spec'])[:80]:
                c = copy.deepcopy(best['case'])
                c['spec'] = s
                cases.append(c)
            if best['case']['cm']:
                cases.append(dict(copy.deepcopy(best['case']), cm={}))
            if best['case']['mm'] is not None:
                cases.append(dict(copy.deepcopy(best['case']), mm=None))
            progressed = False
            kw = {}
            if rec.get('skip_spec'):
                kw['skip_spec'] = True
            if rec.get('toleranced'):
                kw['toleranced'] = True
            for r in self.evaluate_given(cases, **kw):
                _d, vs, _k = self.assess(r, count=False)
                if any(v['clause'] == viol['clause'] for v in vs) and len(r['line']) < len(best['line']):
                    best = r
                    progressed = True
                    break
            if not progressed:
                break
        return best

    # -- batches -----------------------------------------------------------------------------------
    def run_batch(self, descs):
        recs = run_descs(self.ctx, descs)
        for rec in recs:
            diffs, viols, known = self.assess(rec)
            if diffs or viols or known:
                self.report(rec, diffs, viols, known)
        return recs

    def replay_known(self):
        """the recorded witness of every open known finding is replayed on the implementation"""
        ctx = self.ctx
        for kf in ctx.findings.for_property(self.pid):
            w = kf.get('witness')
            if not w:
                continue
            for r in self.evaluate_given([w], label='known-finding'):
                _d, viols, known = self.assess(r, count=False)
                if known:
                    ctx.known_finding(kf['finding'], '%s: %s' % (kf.get('what', ''), known[0][1]['what']))
                elif viols:
                    ctx.violation('known-finding witness violates outside the recorded class: %s' % viols[0]['what'],
                                  replay_record(r, viols[0]['what']))
                else:
                    ctx.count('known-finding-witness-no-longer-fails:' + kf['finding'])

    def replay(self, rec: dict, from_corpus=False) -> bool:
        ctx = self.ctx
        case = rec.get('case')
        if case is None:
            return True
        kw = {}
        if rec.get('grid'):
            kw['grid'] = [F(t) for t in rec['grid']]
        if rec.get('toleranced'):
            kw['toleranced'] = True
        if rec.get('skip_spec'):
            kw['skip_spec'] = True
        recs = self.evaluate_given([case], label='corpus' if from_corpus else 'replay', **kw)
        ok = True
        for r in recs:
            r['toleranced'] = bool(rec.get('toleranced'))
            diffs, viols, known = self.assess(r, count=from_corpus)
            for fid, v in known[:1]:
                ctx.known_finding(fid, v['what'])
            if viols:
                ctx.violation('%s [%s]' % (viols[0]['what'], self.summary(r)), replay_record(r, viols[0]['what']))
                ok = False
            elif diffs:
                ctx.drift(self.correspondence + ' (replayed case)', case, diffs[:3], 'QP.PT')
        return ok
