"""C05 -- compilation options never change what is played.

Three families of cases, all on the REAL qupulse classes (generator: `ptgen`):

options   every tree is instantiated with the default options (baseline) and with many option sets
          (`to_single_waveform` subsets given by identifier and by object; global transformations identity,
          offset, scaling, linear 2x2 / 2->3 / 3->2, parallel channel, chains).  Metamorphic on the
          implementation: duration and measurement windows equal the baseline's, every sample strictly inside
          [0, duration) equals T applied pointwise (by the Lean model of the Transformation classes,
          `(c05 gtapply ..)`) to the baseline's sample.  Correspondence: the same option set is run through the
          Lean program-side model `QP.C05.createProgramT`; judge: `QP.PT.denote` with T applied pointwise.
helpers   convenience constructors called on the real classes against the explicit nesting built by hand
          (samples, windows, duration, channel / parameter / measurement names) and against the Lean functions
          `QP.C05.concatenate`, `withRepetition`, `padTo`, ...
malformed single-fault inputs: the error class of every option set is compared with the model.

Samples are taken from the program itself (every leaf owns [start, start+duration), `play_samples`), and in
addition through `to_waveform(program)` (this is Lean's `toWaveform_sample` on the real code).
"""
from __future__ import annotations

import contextlib
import copy
import fractions
import itertools
import json
import math
import multiprocessing
import os
import random
from typing import Any, Dict, List, Optional, Tuple

import core
import ptcheck
import ptgen
from core import sx

F = fractions.Fraction
PID = 'C05'
GRID_CAP = 48


# ------------------------------------------------------------------------------------------------
# real template trees
# ------------------------------------------------------------------------------------------------

def pt_children(pt) -> list:
    import qupulse.pulses as qp
    from qupulse.pulses.arithmetic_pulse_template import ArithmeticPulseTemplate, ArithmeticAtomicPulseTemplate
    from qupulse.pulses.multi_channel_pulse_template import ParallelChannelPulseTemplate
    from qupulse.pulses.time_reversal_pulse_template import TimeReversalPulseTemplate
    t = type(pt)
    if t in (qp.SequencePT, qp.AtomicMultiChannelPT):
        return list(pt.subtemplates)
    if t in (qp.RepetitionPT, qp.ForLoopPT):
        return [pt.body]
    if t is qp.MappingPT:
        return [pt.template]
    if t is ParallelChannelPulseTemplate:
        return [pt.template]
    if t is ArithmeticPulseTemplate:
        return [pt._pulse_template]
    if t is ArithmeticAtomicPulseTemplate:
        return [pt.lhs, pt.rhs]
    if t is TimeReversalPulseTemplate:
        return [pt._inner]
    return []


def pt_nodes(pt) -> list:
    """all sub-templates in pre-order (index = node number used in replay files)"""
    out = [pt]
    for c in pt_children(pt):
        out.extend(pt_nodes(c))
    return out


def is_rev(pt) -> bool:
    from qupulse.pulses.time_reversal_pulse_template import TimeReversalPulseTemplate
    return type(pt) is TimeReversalPulseTemplate


@contextlib.contextmanager
def synthetic_ids(idmap: Dict[int, str]):
    """serialise a tree with synthetic identifiers for (unnamed) nodes chosen by object"""
    orig = ptgen._ident
    ptgen._ident = lambda pt: idmap.get(id(pt)) or orig(pt)
    try:
        yield
    finally:
        ptgen._ident = orig


def in_single(n, pyset) -> bool:
    """`self.identifier in to_single_waveform or self in to_single_waveform`"""
    return (n.identifier in pyset) or (n in pyset)


def resolve_single(nodes: list, chosen: List[Tuple[int, str]]):
    """chosen = [(node index, 'id'|'obj')] -> (python set for create_program, model identifier list, idmap).
    Membership is decided exactly as `_create_program` does (templates compare by their serialisation data), so
    structurally equal sub-templates are collapsed together."""
    pyset = set()
    for i, mode in chosen:
        n = nodes[i]
        if mode == 'id' and n.identifier is not None:
            pyset.add(n.identifier)
        else:
            pyset.add(n)
    idmap: Dict[int, str] = {}
    names: List[str] = []
    k = 0
    for n in nodes:
        if in_single(n, pyset):
            if n.identifier is not None:
                names.append(n.identifier)
            else:
                if id(n) not in idmap:
                    idmap[id(n)] = 'o__%d' % k
                    k += 1
                names.append(idmap[id(n)])
    return pyset, sorted(set(names)), idmap


# ------------------------------------------------------------------------------------------------
# global transformations:  JSON form  <->  real objects  <->  S-expression
# ------------------------------------------------------------------------------------------------

def build_gt(g):
    from qupulse.program import transformation as T
    import numpy as np
    if g is None:
        return None
    k = g[0]
    if k == 'identity':
        return T.IdentityTransformation()
    if k == 'offset':
        return T.OffsetTransformation({c: float(F(v)) for c, v in g[1]})
    if k == 'scaling':
        return T.ScalingTransformation({c: float(F(v)) for c, v in g[1]})
    if k == 'parallel':
        return T.ParallelChannelTransformation({c: float(F(v)) for c, v in g[1]})
    if k == 'linear':
        return T.LinearTransformation(np.array([[float(F(x)) for x in row] for row in g[3]]), list(g[1]), list(g[2]))
    if k == 'chain':
        return T.chain_transformations(*[build_gt(x) for x in g[1]])
    if k == 'chained':          # the class used directly (may nest)
        return T.ChainedTransformation(*[build_gt(x) for x in g[1]])
    raise core.MachineryError('unknown transformation %r' % (g,))


def gt_sx(t) -> list:
    """real transformation object -> flat list of primitive transformations for `(gt ...)` (by introspection)"""
    from qupulse.program import transformation as T
    if t is None or isinstance(t, T.IdentityTransformation):
        return []
    if isinstance(t, T.ChainedTransformation):
        out = []
        for s in t.transformations:
            out.extend(gt_sx(s))
        return out
    if isinstance(t, T.OffsetTransformation):
        return [['offset', [[ptgen.chan_atom(c), ptgen.num_frac(v)] for c, v in t._offsets.items()]]]
    if isinstance(t, T.ScalingTransformation):
        return [['scaling', [[ptgen.chan_atom(c), ptgen.num_frac(v)] for c, v in t._factors.items()]]]
    if isinstance(t, T.ParallelChannelTransformation):
        return [['parallel', [[ptgen.chan_atom(c), ptgen.num_frac(v)] for c, v in t._channels.items()]]]
    if isinstance(t, T.LinearTransformation):
        return [['linear', [ptgen.chan_atom(c) for c in t._input_channels], [ptgen.chan_atom(c) for c in t._output_channels],
                 [[ptgen.num_frac(x) for x in row] for row in t._matrix.tolist()]]]
    raise core.MachineryError('cannot serialise transformation %r' % (t,))


def gt_touched(g) -> set:
    """channels whose value a transformation reads or writes (PF-11 class)"""
    if g is None or g[0] == 'identity':
        return set()
    if g[0] in ('offset', 'scaling', 'parallel'):
        return {c for c, _ in g[1]}
    if g[0] == 'linear':
        return set(g[1]) | set(g[2])
    out = set()
    for x in g[1]:
        out |= gt_touched(x)
    return out


def gt_spread(g, bad: set) -> set:
    """channels whose value may be wrong after the transformation if the channels `bad` were wrong before"""
    if g is None or g[0] in ('identity', 'offset', 'scaling', 'parallel'):
        return set(bad)
    if g[0] == 'linear':
        return (set(bad) | set(g[2])) if (set(bad) & set(g[1])) else set(bad)
    for x in g[1]:
        bad = gt_spread(x, bad)
    return set(bad)


def gt_flat(g) -> list:
    """primitive transformations of a (nested) chain in application order"""
    if g is None or g[0] == 'identity':
        return []
    if g[0] in ('chain', 'chained'):
        out = []
        for x in g[1]:
            out.extend(gt_flat(x))
        return out
    return [g]


def gt_pf28(g) -> bool:
    """class of PF-C05e: a chain in which an earlier transformation CREATES (ParallelChannelTransformation key,
    LinearTransformation output) an input channel of a later LinearTransformation; sampling a channel that does
    not depend on all inputs of that transformation then raises KeyError"""
    created: set = set()
    for p in gt_flat(g):
        if p[0] == 'parallel':
            created |= {c for c, _ in p[1]}
        elif p[0] == 'linear':
            if created & set(p[1]):
                return True
            created |= set(p[2])
    return False


VOLTS = [F(k, 8) for k in range(-16, 17)]
FACTORS = [F(1, 2), F(2), F(-1), F(1, 4), F(3, 2), F(-1, 2), F(0), F(1)]
MATVALS = [F(0), F(1), F(-1), F(1, 2), F(2), F(-1, 2)]
NEWCH = ['P', 'Q', 'R']
# qupulse: ChannelID = Union[str, int] -- the channels a transformation ADDS may as well be integers (incl. 0); they travel
# to Lean as the atoms `#k` (ptgen.chan_atom)
NEWCH_INT = [0, 1, 7]


def _newch(rng) -> list:
    return list(NEWCH_INT) if rng.random() < 0.35 else list(NEWCH)


def _fs(x: F) -> str:
    return '%d/%d' % (x.numerator, x.denominator) if x.denominator != 1 else str(x.numerator)


def gt_out_chans(g, chans: set) -> set:
    if g is None or g[0] in ('identity', 'offset', 'scaling'):
        return set(chans)
    if g[0] == 'parallel':
        return set(chans) | {c for c, _ in g[1]}
    if g[0] == 'linear':
        return (set(chans) - set(g[1])) | set(g[2])
    for x in g[1]:
        chans = gt_out_chans(x, chans)
    return set(chans)


def random_gt(rng, chans: List[str], kind: Optional[str] = None):
    """one global transformation (JSON form) applicable to a program on the channels `chans`"""
    kinds = ['identity', 'offset', 'scaling', 'parallel', 'parallel_over', 'chain', 'chain', 'chained']
    if len(chans) >= 2:
        kinds += ['linear22', 'linear22', 'linear23']
    if len(chans) >= 3:
        kinds += ['linear32', 'linear32']
    k = kind or rng.choice(kinds)

    def sub():
        return rng.sample(chans, rng.randrange(1, len(chans) + 1))
    if k == 'identity':
        return ['identity']
    if k == 'offset':
        return ['offset', [[c, _fs(rng.choice(VOLTS))] for c in sub()]]
    if k == 'scaling':
        return ['scaling', [[c, _fs(rng.choice(FACTORS))] for c in sub()]]
    if k == 'parallel':
        return ['parallel', [[c, _fs(rng.choice(VOLTS))] for c in rng.sample(_newch(rng), rng.choice([1, 2]))]]
    if k == 'parallel_over':
        return ['parallel', [[c, _fs(rng.choice(VOLTS))] for c in sub() + rng.sample(_newch(rng), rng.choice([0, 1]))]]
    if k.startswith('linear'):
        n_in, n_out = int(k[6]), int(k[7])
        # LinearTransformation sorts its channel ids: it cannot mix integer and string ids, so it stays on the strings
        schans = [c for c in chans if isinstance(c, str)]
        if len(schans) < n_in:
            return ['offset', [[c, _fs(rng.choice(VOLTS))] for c in sub()]]
        ins = rng.sample(schans, n_in)
        rest = [c for c in chans if c not in ins]
        pool = [c for c in ins + NEWCH if c not in rest]
        outs = rng.sample(pool, n_out)
        mat = [[_fs(rng.choice(MATVALS)) for _ in range(n_in)] for _ in range(n_out)]
        return ['linear', ins, outs, mat]
    # chains: the channel set changes along the chain
    parts = []
    cur = list(chans)
    for _ in range(rng.choice([2, 2, 3])):
        p = random_gt(rng, cur, rng.choice(['offset', 'scaling', 'parallel', 'parallel_over', 'identity'] +
                                           (['linear22'] if len(cur) >= 2 else [])))
        if gt_pf28([k, parts + [p]]) and rng.random() < 0.85:
            continue
        parts.append(p)
        cur = sorted(gt_out_chans(p, set(cur)), key=ptgen.chan_atom)
    if not parts:
        parts = [['identity']]
    return [k, parts]


# ------------------------------------------------------------------------------------------------
# observing a program
# ------------------------------------------------------------------------------------------------

def _locate(l, t: F):
    """the leaf playing at time t (every leaf owns [start, start+duration)) and the local time"""
    bd = ptgen.num_frac(l.body_duration)
    if bd <= 0:
        return None
    k = t // bd
    if k < 0 or k >= l.repetition_count:
        return None
    t = t - k * bd
    if l.is_leaf():
        return l, t
    for c in l:
        d = ptgen.num_frac(c.duration)
        if t < d:
            return _locate(c, t)
        t -= d
    return None


def _inner_bounds(wf, offset: F, out: set):
    """times (local to the outermost waveform) at which a Sequence/RepetitionWaveform inside `wf` switches
    pieces, incl. its end"""
    from qupulse.program import waveforms as W
    if isinstance(wf, W.SequenceWaveform):
        t = offset
        for s in wf._sequenced_waveforms:
            _inner_bounds(s, t, out)
            t += ptgen.num_frac(s.duration)
            out.add(t)
    elif isinstance(wf, W.RepetitionWaveform):
        bd = ptgen.num_frac(wf._body.duration)
        for k in range(min(wf._repetition_count, 64)):
            _inner_bounds(wf._body, offset + k * bd, out)
            out.add(offset + (k + 1) * bd)
    elif isinstance(wf, W.MultiChannelWaveform):
        for s in wf._sub_waveforms:
            _inner_bounds(s, offset, out)
    elif isinstance(wf, (W.TransformingWaveform, W.FunctorWaveform, W.SubsetWaveform)):
        _inner_bounds(wf._inner_waveform, offset, out)
    elif isinstance(wf, W.ArithmeticWaveform):
        _inner_bounds(wf._lhs, offset, out)
        _inner_bounds(wf._rhs, offset, out)
    elif isinstance(wf, W.ReversedWaveform):
        inner: set = set()
        _inner_bounds(wf._inner, F(0), inner)
        d = ptgen.num_frac(wf.duration)
        for t in inner:
            out.add(offset + d - t)


def pf04_local_times(wf) -> set:
    """Class of the junction part of PF-04, per leaf waveform: local times at which a time reversed waveform
    samples a composite (collapsed) waveform on one of its piece boundaries or at its end.  Only a
    `to_single_waveform` part inside a TimeReversalPT produces such a waveform."""
    from qupulse.program import waveforms as W
    out: set = set()

    def walk(w, offset: F):
        if isinstance(w, W.ReversedWaveform):
            inner: set = set()
            _inner_bounds(w._inner, F(0), inner)
            d = ptgen.num_frac(w.duration)
            for t in inner:
                out.add(offset + d - t)
        elif isinstance(w, W.SequenceWaveform):
            t = offset
            for s in w._sequenced_waveforms:
                walk(s, t)
                t += ptgen.num_frac(s.duration)
        elif isinstance(w, W.RepetitionWaveform):
            bd = ptgen.num_frac(w._body.duration)
            for k in range(min(w._repetition_count, 64)):
                walk(w._body, offset + k * bd)
        elif isinstance(w, W.MultiChannelWaveform):
            for s in w._sub_waveforms:
                walk(s, offset)
        elif isinstance(w, (W.TransformingWaveform, W.FunctorWaveform, W.SubsetWaveform)):
            walk(w._inner_waveform, offset)
        elif isinstance(w, W.ArithmeticWaveform):
            walk(w._lhs, offset)
            walk(w._rhs, offset)
    walk(wf, F(0))
    return out


def play_samples(prog, chans: List[str], grid: List[F]):
    """sample the program as it is played: every grid point goes to the leaf that owns it.
    Returns ({ch: [value|'nan'|'error:..']}, set of grid indices in the PF-04 junction class)."""
    import numpy as np
    where = [_locate(prog, t) for t in grid]
    by_leaf: Dict[int, list] = {}
    for i, w in enumerate(where):
        if w is not None:
            by_leaf.setdefault(id(w[0]), [w[0], []])[1].append((w[1], i))
    samples = {ch: ['nan'] * len(grid) for ch in chans}
    pf04: set = set()
    for leaf, pts in by_leaf.values():
        pts.sort()
        times = np.array([float(t) for t, _ in pts], dtype=float)
        wf = leaf.waveform
        junctions = pf04_local_times(wf)
        for t, i in pts:
            if t in junctions:
                pf04.add(i)
        for ch in chans:
            try:
                arr = wf.get_sampled(ptgen.chan_of_atom(ch), times)
                for (t, i), x in zip(pts, arr):
                    samples[ch][i] = 'nan' if math.isnan(x) else F(float(x))
            except Exception as exc:  # noqa
                cls = 'error:' + core.classify_exception(exc)
                for _t, i in pts:
                    samples[ch][i] = cls
    return samples, pf04


def observe_program(prog, grid: Optional[List[F]], rng=None, with_wf=False) -> dict:
    """observables of one instantiated program (None = empty)"""
    if prog is None:
        return {'status': 'empty'}
    o: Dict[str, Any] = {'status': 'ok'}
    o['dur'] = ptgen.num_frac(prog.duration)
    o['pieces'] = ptgen.pieces_sum(prog)
    try:
        sets = ptgen.leaf_channel_sets(prog)
    except Exception as exc:  # noqa -- e.g. a LinearTransformation whose input channel a piece does not define
        return {'status': 'error', 'error': core.classify_exception(exc), 'msg': 'defined_channels: ' + str(exc)[:160]}
    uniform = all(s == sets[0] for s in sets)
    o['chans'] = sorted(ptgen.chan_atom(c) for c in sets[0]) if uniform else 'nonuniform'
    try:
        win = prog.get_measurement_windows()
        o['windows'] = sorted((name, F(float(b)), F(float(l))) for name, (bs, ls) in win.items()
                              for b, l in zip(bs, ls))
    except Exception as exc:  # noqa
        o['windows'] = 'error:' + core.classify_exception(exc)
    if grid is None:
        grid = ptgen.make_grid(rng or random.Random(0), prog, o['dur'], cap=GRID_CAP) if o['dur'] < 4000 else []
    o['grid'] = grid
    o['samples'] = {}
    o['pf04'] = set()
    if uniform and grid:
        o['samples'], o['pf04'] = play_samples(prog, o['chans'], grid)
    try:
        from qupulse.program.loop import to_waveform
        wf = to_waveform(prog)
        o['wfdur'] = ptgen.num_frac(wf.duration)
        if with_wf and uniform and grid:
            import numpy as np
            times = np.array([float(t) for t in grid], dtype=float)
            ws = {}
            for ch in o['chans']:
                try:
                    arr = wf.get_sampled(ptgen.chan_of_atom(ch), times)
                    ws[ch] = ['nan' if math.isnan(x) else F(float(x)) for x in arr]
                except Exception as exc:  # noqa
                    ws[ch] = 'error:' + core.classify_exception(exc)
            o['wfsamples'] = ws
    except Exception as exc:  # noqa
        o['wfdur'] = 'error:' + core.classify_exception(exc)
    return o


def create(pt, case: dict, pyset=None, gt=None):
    kwargs: Dict[str, Any] = {'parameters': dict(case['params'])}
    if case.get('cm'):
        kwargs['channel_mapping'] = dict(case['cm'])
    if case.get('mm') is not None:
        kwargs['measurement_mapping'] = dict(case['mm'])
    if pyset:
        kwargs['to_single_waveform'] = set(pyset)
    if gt is not None:
        kwargs['global_transformation'] = gt
    return pt.create_program(**kwargs)


def observe_opts(pt, case, pyset, gt_json, grid, rng=None, with_wf=False) -> dict:
    try:
        prog = create(pt, case, pyset, build_gt(gt_json))
    except Exception as exc:  # noqa
        return {'status': 'error', 'error': core.classify_exception(exc), 'msg': str(exc)[:200]}
    return observe_program(prog, grid, rng, with_wf)


# ------------------------------------------------------------------------------------------------
# PF-11 class
# ------------------------------------------------------------------------------------------------

def pf11_bad_channels(pt, cm_full: Dict[str, Optional[str]], gt_json) -> set:
    """program channels whose samples PF-11 may affect under the global transformation `gt_json`:
    channels overwritten by a ParallelChannelPT below a transformation touching them (ptcheck.pf11_channels with
    the global transformation's channels as initially affected), spread through the global transformation"""
    own = ptcheck.pf11_channels(pt, cm_full, frozenset(gt_touched(gt_json)))
    return gt_spread(gt_json, own) if own else set()


# ------------------------------------------------------------------------------------------------
# option sets
# ------------------------------------------------------------------------------------------------

def _mode(rng, n) -> str:
    return 'id' if (n.identifier is not None and rng.random() < 0.5) else 'obj'


def option_sets(rng, nodes: list, chans, n_gt: int, max_all: int = 6, n_random: int = 8) -> List[dict]:
    """all subsets for small trees, random subsets otherwise; each subset once with a random choice between
    identifier and object for named nodes; plus global transformations alone and combined with subsets"""
    n = len(nodes)
    opts: List[dict] = []
    if n <= max_all:
        subsets = [list(c) for r in range(1, n + 1) for c in itertools.combinations(range(n), r)]
    else:
        subsets = []
        seen = set()
        for _ in range(n_random * 3):
            r = rng.choice([1, 1, 2, 2, 3, n // 2, n])
            s = tuple(sorted(rng.sample(range(n), max(1, min(n, r)))))
            if s not in seen:
                seen.add(s)
                subsets.append(list(s))
            if len(subsets) >= n_random:
                break
    for s in subsets:
        opts.append({'single': [(i, _mode(rng, nodes[i])) for i in s], 'gt': None})
    if isinstance(chans, list) and chans:
        for _ in range(n_gt):
            g = random_gt(rng, chans)
            opts.append({'single': [], 'gt': g})
            if subsets:
                s = rng.choice(subsets)
                opts.append({'single': [(i, _mode(rng, nodes[i])) for i in s], 'gt': g})
    return opts


def request_line(pt, case: dict, names: List[str], idmap, gt_obj, grid: List[F], skip=()) -> str:
    with synthetic_ids(idmap):
        ptsx = ptgen.to_sx(pt)
    mm = case.get('mm')
    fields = ['c05', 'run', ['pt', ptsx],
              ['params'] + [[k, ptgen.num_frac(v)] for k, v in case['params'].items()],
              ['mm', 'none'] if mm is None else ['mm'] + [[k, 'none' if v is None else v] for k, v in mm.items()],
              ['cm'] + [[k, 'none' if v is None else v] for k, v in (case.get('cm') or {}).items()],
              ['single'] + list(names),
              ['gt'] + gt_sx(gt_obj),
              ['grid'] + list(grid)]
    if skip:
        fields.append(['skip'] + list(skip))
    return sx(fields)


def gtapply_line(gt_obj, chans: List[str], samples: Dict[str, list]) -> Optional[str]:
    n = len(next(iter(samples.values()))) if samples else 0
    rows = []
    for i in range(n):
        row = []
        for c in chans:
            v = samples[c][i]
            if isinstance(v, str) and v != 'nan':
                return None
            row.append(v)
        rows.append(row)
    return sx(['c05', 'gtapply', ['gt'] + gt_sx(gt_obj), ['chans'] + list(chans), ['rows'] + rows])


def _has_linear(g) -> bool:
    if g is None:
        return False
    if g[0] == 'linear':
        return True
    if g[0] in ('chain', 'chained'):
        return any(_has_linear(x) for x in g[1])
    return False


def _nodes_inside_reversal(pt) -> set:
    """ids of all template objects strictly inside a TimeReversalPT"""
    out: set = set()

    def walk(n, inside):
        if inside:
            out.add(id(n))
        for c in pt_children(n):
            walk(c, inside or is_rev(n))
    walk(pt, False)
    return out


def work_options(desc: dict) -> Optional[dict]:
    """worker: one tree, baseline + all its option sets on the real code, request lines for the model"""
    import warnings
    warnings.filterwarnings('ignore')
    core.ensure_repo_on_path()
    case = ptcheck.make_case(desc)
    if case is None:
        return None
    rng = random.Random(desc['seed'] ^ 0x2545F491)
    pt = ptgen.build(case['spec'])
    nodes = pt_nodes(pt)
    base = observe_opts(pt, case, None, None, desc.get('grid'), rng, with_wf=True)
    cm_full = {c: c for c in pt.defined_channels}
    cm_full.update(case.get('cm') or {})
    rec: Dict[str, Any] = {'case': ptgen.case_json(case), 'family': desc['family'], 'label': desc.get('label', desc['family']),
                           'n_nodes': len(nodes), 'kinds': ptgen.spec_kinds(case['spec']),
                           'depth': ptgen.spec_depth(case['spec']), 'base': base, 'opts': []}
    grid = base.get('grid', []) if base['status'] == 'ok' else []
    rec['grid'] = grid
    rec['base_line'] = request_line(pt, case, [], {}, None, grid)
    if desc.get('opts') is not None:
        opts = desc['opts']
    elif base['status'] == 'ok':
        opts = option_sets(rng, nodes, [ptgen.chan_of_atom(c) for c in base['chans']] if isinstance(base['chans'], list) else base['chans'],
                           desc.get('n_gt', 2), desc.get('max_all', 6), desc.get('n_random', 8))
    elif base['status'] == 'error':
        # malformed stream: a few option sets, only the error class is compared
        opts = option_sets(rng, nodes, None, 0, 3, 3)[:4]
    else:
        opts = option_sets(rng, nodes, None, 0, 4, 4)[:6]
    rev_inside = _nodes_inside_reversal(pt)
    for o in opts:
        chosen = [tuple(c) for c in o['single']]
        pyset, names, idmap = resolve_single(nodes, chosen)
        obs = observe_opts(pt, case, pyset, o['gt'], grid if grid else None, rng)
        gt_obj = build_gt(o['gt'])
        line = request_line(pt, case, names, idmap, gt_obj, grid)
        ga = None
        if o['gt'] is not None and base['status'] == 'ok' and isinstance(base['chans'], list) and grid:
            ga = gtapply_line(gt_obj, base['chans'], base['samples'])
        collapsed_in_rev = any(id(n) in rev_inside for n in nodes if in_single(n, pyset))
        rec['opts'].append({'single': [list(c) for c in chosen], 'names': names, 'gt': o['gt'], 'obs': obs, 'line': line,
                            'gtapply': ga, 'pf11': sorted(ptgen.chan_atom(c) for c in pf11_bad_channels(pt, cm_full, o['gt'])),
                            'pf11_any': bool(ptcheck.pf11_channels(pt, cm_full, frozenset(gt_touched(o['gt'])))),
                            'collapsed_in_rev': collapsed_in_rev,
                            'gt_linear': _has_linear(o['gt']), 'pf28': gt_pf28(o['gt'])})
    return rec


# ------------------------------------------------------------------------------------------------
# assessment of one tree
# ------------------------------------------------------------------------------------------------

def parse_reply(ans) -> dict:
    if ans and ans[0] == 'err':
        raise core.MachineryError('driver rejected a request: %r' % (ans,))
    model = ptgen.parse_obs(ptgen._field(ans, 'model')[0])
    if model['status'] == 'ok':
        model['samples'] = {ch: ['nan' if v == 'nan' else core.as_frac(v) for v in vals]
                            for ch, vals in model['samples_raw'].items()}
    spec = ptgen.parse_obs(ptgen._field(ans, 'spec')[0])
    if spec['status'] == 'ok':
        spec['adm'] = {ch: [[core.as_frac(v) for v in pt_vals] for pt_vals in vals]
                       for ch, vals in spec['samples_raw'].items()}
    cls = {x[0]: x[1] == 'true' for x in (ptgen._field(ans, 'class') or [])}
    return {'model': model, 'spec': spec, 'class': cls}


def parse_gtapply(ans) -> list:
    """-> per grid point: dict ch -> value | 'nan', or ('error', cls)"""
    if ans and ans[0] == 'err':
        raise core.MachineryError('driver rejected a gtapply request: %r' % (ans,))
    out = []
    for row in ans:
        if row[0] == 'error':
            out.append(('error', row[1]))
        else:
            out.append({c: ('nan' if v == 'nan' else core.as_frac(v)) for c, v in row[1:]})
    return out


class Finding:
    def __init__(self, clause, what, known=None, channel=None):
        self.clause, self.what, self.known, self.channel = clause, what, known, channel


def note_known(ctx, finding_id: str, what: str, count=True):
    """KNOWN-FINDING lines: the first three distinct reproductions of every finding are printed, all are counted"""
    n = ctx.extra.setdefault('known_reproductions', {})
    n[finding_id] = n.get(finding_id, 0) + 1
    if n[finding_id] <= 3:
        ctx.known_finding(finding_id, what)
    if count:
        ctx.count('known:' + finding_id)


def _opt_tag(o) -> str:
    parts = []
    if o['single']:
        parts.append('to_single_waveform=%s' % ['%s#%d' % (m, i) for i, m in o['single']])
    if o['gt'] is not None:
        parts.append('global_transformation=%s' % json.dumps(o['gt']))
    return ' and '.join(parts) or 'default options'


def compare_option(base: dict, o: dict, expect: Optional[list]) -> List[Finding]:
    """metamorphic judgement of one option set against the baseline program (both from the implementation).
    `expect` = per grid point the transformed baseline values (None if no global transformation)."""
    out: List[Finding] = []
    obs = o['obs']
    tag = _opt_tag(o)
    if base['status'] == 'error':
        return out           # not an accepted input
    if base['status'] == 'ok' and base['chans'] == 'nonuniform':
        return out           # the default program itself is not a pulse (pieces on different channel sets)
    if expect is not None and any(isinstance(e, tuple) for e in expect):
        return out           # the transformation is not applicable to the default output (KeyError): no claim
    if obs['status'] == 'error':
        out.append(Finding('option-raises', 'with %s instantiation raises %s (%s) although the default options produce %s'
                           % (tag, obs['error'], obs.get('msg', ''), 'a program' if base['status'] == 'ok' else 'no program'),
                           known='PF-11' if o.get('pf11_any') and obs['error'] == 'key_error' else None))
        return out
    if base['status'] == 'empty' or obs['status'] == 'empty':
        if base['status'] != obs['status']:
            out.append(Finding('empty', 'with %s the program is %s, with the default options it is %s'
                               % (tag, obs['status'], base['status'])))
        return out
    if obs['chans'] == 'nonuniform' and o.get('pf11_any'):
        # PF-11 under a channel-changing (linear) transformation: the overwritten channel is added after the
        # transformation on some pieces only
        out.append(Finding('channels', 'with %s the played pieces define different channel sets' % tag, known='PF-11'))
        return out
    if obs['dur'] != base['dur']:
        out.append(Finding('duration', 'with %s the program lasts %s instead of %s' % (tag, obs['dur'], base['dur'])))
    if not (obs['dur'] == obs.get('wfdur') == obs['pieces']):
        out.append(Finding('duration', 'with %s Loop.duration %s, waveform duration %s and sum of played pieces %s disagree'
                           % (tag, obs['dur'], obs.get('wfdur'), obs['pieces'])))
    if obs['windows'] != base['windows']:
        if isinstance(obs['windows'], str) or isinstance(base['windows'], str):
            out.append(Finding('windows', 'with %s get_measurement_windows gives %s instead of %s'
                               % (tag, obs['windows'], base['windows'])))
        else:
            missing = ptcheck._multiset_diff(base['windows'], obs['windows'])
            extra = ptcheck._multiset_diff(obs['windows'], base['windows'])
            out.append(Finding('windows', 'with %s the measurement windows change: missing %s, unexpected %s'
                               % (tag, ptcheck._short(ptcheck.fmt_w(missing)), ptcheck._short(ptcheck.fmt_w(extra)))))
    # samples
    grid = base['grid']
    bad11 = set(o['pf11'])
    if expect is None:
        exp_chans = base['chans']

        def exp_at(ch, i):
            return base['samples'][ch][i]
    else:
        first = expect[0] if expect else None
        exp_chans = sorted(first.keys()) if first is not None else obs['chans']

        def exp_at(ch, i):
            return expect[i][ch]
    if obs['chans'] != exp_chans:
        out.append(Finding('channels', 'with %s the program defines channels %s instead of %s' % (tag, obs['chans'], exp_chans),
                           known='PF-11' if (o.get('pf11_any') and obs['chans'] != 'nonuniform') else None))
        return out
    for ch in exp_chans:
        got = obs['samples'].get(ch)
        if got is None:
            continue
        for i, t in enumerate(grid):
            a, e = got[i], exp_at(ch, i)
            if a == e:
                continue
            in04 = (i in obs['pf04']) or (i in base['pf04'])
            if a == 'nan':
                out.append(Finding('nan', 'with %s the sample on %s at t=%s is NaN (default options: %s)' % (tag, ch, t, e),
                                   channel=ch))
                break
            if isinstance(a, str):
                known = None
                if a == 'error:key_error':
                    known = 'PF-C05e' if o.get('pf28') else ('PF-11' if o.get('pf11_any') else None)
                out.append(Finding('sample-raises', 'with %s sampling %s raises %s' % (tag, ch, a), channel=ch, known=known))
                break
            known = 'PF-11' if ch in bad11 else ('PF-04-junction' if in04 else None)
            out.append(Finding('value', 'with %s the sample on %s at t=%s is %s instead of %s' % (tag, ch, t, a, e),
                               known=known, channel=ch))
            if known != 'PF-04-junction':
                break
    return out


def impl_record(o_obs: dict) -> dict:
    """shape expected by ptcheck.diff_model / ptcheck.judge"""
    r = dict(o_obs)
    if r['status'] == 'ok':
        r.setdefault('wfdur', None)
    return r


def _gt_kind(g) -> str:
    if g[0] == 'linear':
        return 'linear%dx%d' % (len(g[2]), len(g[1]))
    return g[0]


def assess_tree(ctx, rec: dict, replies: dict, count=True) -> List[Tuple[dict, Finding]]:
    """returns [(option, finding)] of unexcused findings; known ones are reported through ctx.known_finding"""
    bad: List[Tuple[dict, Finding]] = []
    base = rec['base']
    known_ids = {k['finding'] for k in ctx.findings.for_property(PID)}
    if count:
        ctx.count('trees')
        ctx.count('family:' + rec['label'])
        ctx.count('base:' + base['status'] + (':' + base['error'] if base['status'] == 'error' else ''))
        ctx.count('nodes:%s' % (rec['n_nodes'] if rec['n_nodes'] <= 8 else '9+'))
        for k in set(rec['kinds']):
            ctx.count('kind:' + k)
    base_o = {'single': [], 'gt': None, 'obs': base, 'pf11': [], 'line': rec['base_line'], 'collapsed_in_rev': False,
              'gt_linear': False}
    breply = replies.get(rec['base_line'])
    if breply is not None:
        _check_model_and_spec(ctx, rec, base_o, breply, bad, known_ids, count, is_base=True)
    if base['status'] == 'ok' and isinstance(base['chans'], list) and 'wfsamples' in base:
        # Lean's toWaveform_sample on the real code: the program as played == to_waveform(program)
        for ch in base['chans']:
            a, b = base['samples'].get(ch), base['wfsamples'].get(ch)
            if a is None or b is None or a == b:
                continue
            if isinstance(b, str):
                f = Finding('to_waveform', 'sampling to_waveform(program) on %s raises %s' % (ch, b), channel=ch)
            else:
                idx = next(i for i, (x, y) in enumerate(zip(a, b)) if x != y)
                f = Finding('to_waveform', 'to_waveform(program) samples %s on %s at t=%s, the program plays %s'
                            % (b[idx], ch, rec['grid'][idx], a[idx]), channel=ch)
            bad.append((base_o, f))
    for o in rec['opts']:
        if count:
            ctx.case(o['line'], nontrivial=(o['obs']['status'] == 'ok' and (bool(o['single']) or o['gt'] is not None)))
            ctx.count('optsets')
            ctx.count('opt:single=%d' % min(len(o['single']), 4) + ('+gt' if o['gt'] is not None else ''))
            if o['gt'] is not None:
                ctx.count('gt:' + _gt_kind(o['gt']))
            for _i, m in o['single']:
                ctx.count('by:' + m)
            ctx.count('opt-impl:' + o['obs']['status'])
            if o['collapsed_in_rev']:
                ctx.count('collapsed-inside-reversal')
            if o['obs']['status'] == 'ok':
                ctx.count('grid-points', len(rec['grid']) * (len(o['obs']['chans']) if isinstance(o['obs']['chans'], list) else 0))
                if o['obs'].get('pf04'):
                    ctx.count('grid-points-in-PF-04-junction-class', len(o['obs']['pf04']))
        expect = None
        skip = False
        if o['gt'] is not None:
            if o.get('gtapply') is None:
                skip = base['status'] == 'ok'
            else:
                expect = parse_gtapply(replies['#ga:' + o['line']])
        fs = [] if skip else compare_option(base, o, expect)
        reply = replies.get(o['line'])
        for f in fs:
            if f.known and f.known in known_ids:
                note_known(ctx, f.known, f.what, count)
                # the harness' finding classes must lie inside the complement of the Lean hypothesis `cleanW`:
                # where the theorems apply nothing may have to be excused
                if (f.known in ('PF-11', 'PF-04-junction') and reply is not None and reply['class'].get('clean')
                        and not o.get('gt_linear')):
                    ctx.drift('finding class of the harness vs hypothesis QP.C05.cleanW of the theorems',
                              {'case': rec['case'], 'single': o['single'], 'gt': o['gt']}, f.what, 'cleanW = true')
            else:
                bad.append((o, f))
        if reply is not None:
            _check_model_and_spec(ctx, rec, o, reply, bad, known_ids, count)
    return bad


def _check_model_and_spec(ctx, rec, o, reply, bad, known_ids, count, is_base=False):
    """correspondence with the Lean program model and judgement against denote (with T applied pointwise)"""
    obs = o['obs']
    grid = rec['grid']
    impl = impl_record(obs)
    model, spec = reply['model'], reply['spec']
    # --- judge: implementation against the spec
    if spec['status'] not in ('skipped', 'error') and obs['status'] != 'error' and not o.get('gt_linear'):
        fake = {'impl': impl, 'grid': grid}
        for v in ptcheck.judge(fake, {'spec': spec}, ('samples', 'windows', 'durations')):
            ch = v.get('channel')
            known = None
            if v['clause'] == 'value' and ch in set(o['pf11']):
                known = 'PF-11'
            if v['clause'] == 'channels' and (obs.get('chans') == 'nonuniform' or o.get('pf11_any')):
                if obs.get('chans') == 'nonuniform':
                    continue        # C01's concern, not an option effect
                known = 'PF-11'
            f = Finding('spec-' + v['clause'], '%s: %s' % (_opt_tag(o), v['what']), known=known, channel=ch)
            if known and known in known_ids:
                note_known(ctx, known, f.what, count)
            elif is_base:
                # the default options against denote is C01/C02/C04's claim; it is recorded, not alarmed here
                if count:
                    ctx.count('baseline-differs-from-denote (C01/C02/C04 scope): ' + v['clause'])
            else:
                bad.append((o, f))
    if count:
        ctx.count('spec:' + spec['status'])
        if reply['class']:
            ctx.count('lean-class:clean=%s' % reply['class'].get('clean'))
    # --- correspondence: implementation against the program-side model
    if model['status'] == 'skipped':
        return
    diffs = ptcheck.diff_model(impl, model, None, ('samples', 'windows', 'durations'))
    if diffs and rec['case'].get('fault') == 'missing' and impl['status'] == 'error':
        # A declared parameter was removed from the assignment (same rule as ptcheck.assess): the implementation may
        # legitimately need MORE than the model reads (it checks every declared parameter up front, e.g. one that only a
        # dropped measurement window uses), and the flavour of a missing-parameter error is not an observable of C05.
        if model['status'] in ('ok', 'empty') and impl['error'] == 'parameter_missing':
            diffs = [d for d in diffs if not d.startswith('status:')]
            if count:
                ctx.count('missing:implementation-needs-more-than-model')
        elif model['status'] == 'error' and impl['error'] != model['error']:
            diffs = [d for d in diffs if not d.startswith('error class:')]
            if count:
                ctx.count('missing:different-error-flavour')
    if diffs and obs['status'] == 'ok' and model['status'] == 'ok' and obs.get('pf04'):
        # PF-04 repaired in the code (last piece right-closed); a model without the repair has NaN there
        diffs = _diffs_outside(impl, model, obs['pf04'])
    if diffs:
        ctx.drift('create_program(options) vs QP.C05.createProgramT', {'case': rec['case'], 'single': o['single'], 'gt': o['gt']},
                  diffs[:3], 'see model')


def _diffs_outside(impl, model, skip_idx) -> List[str]:
    d = []
    for key in ('chans', 'dur', 'windows', 'wfdur', 'pieces'):
        if impl.get(key) != model.get(key):
            d.append('%s: impl %s, model %s' % (key, impl.get(key), model.get(key)))
    if isinstance(impl['chans'], list) and impl['chans'] == model['chans']:
        for ch in impl['chans']:
            iv, mv = impl['samples'].get(ch), model['samples'].get(ch)
            if iv is None or mv is None or isinstance(iv, str):
                continue
            badi = [i for i, (a, b) in enumerate(zip(iv, mv)) if a != b and not (i in skip_idx and b == 'nan')]
            if badi:
                d.append('samples on %s differ at index %d: impl %s, model %s' % (ch, badi[0], iv[badi[0]], mv[badi[0]]))
    return d


# ------------------------------------------------------------------------------------------------
# batch driver
# ------------------------------------------------------------------------------------------------

def run_trees(ctx, descs: List[dict], workers: Optional[int] = None) -> List[dict]:
    if workers is None:
        workers = int(os.environ.get('VERIF_WORKERS', '0')) or (6 if ctx.quick else 14)
    workers = max(1, min(workers, len(descs) // 4 or 1))
    if workers > 1:
        mp = multiprocessing.get_context('fork')
        with mp.Pool(workers) as pool:
            recs = pool.map(work_options, descs, chunksize=max(1, len(descs) // (workers * 8)))
    else:
        recs = [work_options(d) for d in descs]
    recs = [r for r in recs if r is not None]
    attach_replies(recs)
    return recs


def attach_replies(recs: List[dict]):
    lines: List[str] = []
    keys: List[Tuple[int, str]] = []
    for ri, r in enumerate(recs):
        lines.append(r['base_line'])
        keys.append((ri, r['base_line']))
        for o in r['opts']:
            lines.append(o['line'])
            keys.append((ri, o['line']))
            if o.get('gtapply'):
                lines.append(o['gtapply'])
                keys.append((ri, '#ga:' + o['line']))
    answers = core.Lean.run(lines)
    for r in recs:
        r['replies'] = {}
    for (ri, k), a in zip(keys, answers):
        recs[ri]['replies'][k] = a if k.startswith('#ga:') else parse_reply(a)


def replay_dict(rec: dict, o: dict, f: Finding) -> dict:
    return {'kind': 'c05-options', 'case': rec['case'], 'single': o.get('single', []), 'gt': o.get('gt'),
            'grid': [str(t) for t in rec['grid']], 'clause': f.clause, 'label': rec.get('label')}


def report_tree(ctx, rec: dict, bad: List[Tuple[dict, Finding]]):
    if not bad:
        return
    ctx.disagreements += 1
    seen = set()
    for o, f in bad:
        if f.clause in seen:        # one report per clause and tree
            continue
        seen.add(f.clause)
        small_rec, small_o, small_f = rec, o, f
        n_shrunk = ctx.extra.setdefault('shrunk', 0)
        if n_shrunk < 3:
            ctx.extra['shrunk'] = n_shrunk + 1
            small_rec, small_o, small_f = shrink(ctx, rec, o, f)
        ctx.violation('%s [kinds=%s params=%s]' % (small_f.what, '/'.join(small_rec['kinds']), small_rec['case']['params']),
                      replay_dict(small_rec, small_o, small_f))


def _spec_candidates(spec) -> List[dict]:
    """smaller spec trees: a node replaced by one of its children, sequence parts dropped, decorations dropped,
    counts / ranges reduced (own copy: the shared shrinker of ptcheck may change)"""
    out: List[dict] = []

    def rec(node, rebuild):
        for ch in ptgen.children(node):
            out.append(rebuild(copy.deepcopy(ch)))
        k = node['k']
        if k == 'seq' and len(node['subs']) > 1:
            for i in range(len(node['subs'])):
                n = copy.deepcopy(node)
                del n['subs'][i]
                out.append(rebuild(n))
        for key in ('meas', 'cons'):
            if node.get(key):
                n = copy.deepcopy(node)
                n[key] = []
                out.append(rebuild(n))
        if k == 'rep' and node['count'] not in ('1', '2'):
            for cnt in ('1', '2'):
                n = copy.deepcopy(node)
                n['count'] = cnt
                out.append(rebuild(n))
        if k == 'for' and node['range'] != ['0', '2', '1']:
            n = copy.deepcopy(node)
            n['range'] = ['0', '2', '1']
            out.append(rebuild(n))
        if k in ('seq', 'amulti'):
            for i, ch in enumerate(node['subs']):
                def rb(x, i=i, node=node):
                    n = copy.deepcopy(node)
                    n['subs'][i] = x
                    return rebuild(n)
                rec(ch, rb)
        elif k == 'aarith':
            for key in ('lhs', 'rhs'):
                def rb(x, key=key, node=node):
                    n = copy.deepcopy(node)
                    n[key] = x
                    return rebuild(n)
                rec(node[key], rb)
        elif 'body' in node:
            def rb(x, node=node):
                n = copy.deepcopy(node)
                n['body'] = x
                return rebuild(n)
            rec(node['body'], rb)
    rec(spec, lambda x: x)
    return out


def shrink(ctx, rec, o, f, rounds=5):
    """delta debugging on the spec tree: a smaller tree is kept if some option set of it shows the same clause"""
    best = (rec, o, f)
    for _ in range(rounds):
        cands = _spec_candidates(best[0]['case']['spec'])[:40]
        progressed = False
        descs = []
        for i, s in enumerate(cands):
            c = copy.deepcopy(best[0]['case'])
            c['spec'] = s
            descs.append({'family': 'given', 'seed': i, 'case': c, 'label': 'search', 'n_gt': 2 if o.get('gt') is not None else 0,
                          'max_all': 5, 'n_random': 6})
        recs = []
        for d in descs:
            try:
                r = work_options(d)
            except Exception:  # noqa -- candidate not constructible
                r = None
            if r is not None:
                recs.append(r)
        if not recs:
            break
        attach_replies(recs)
        for r in recs:
            b = assess_tree(ctx, r, r['replies'], count=False)
            hit = [(oo, ff) for oo, ff in b if ff.clause == f.clause]
            if hit and len(json.dumps(r['case']['spec'])) < len(json.dumps(best[0]['case']['spec'])):
                best = (r, hit[0][0], hit[0][1])
                progressed = True
                break
        if not progressed:
            break
    return best


# ------------------------------------------------------------------------------------------------
# helpers family
# ------------------------------------------------------------------------------------------------

HELPERS = ['concatenate', 'concatenate', 'matmul', 'withAppended', 'withRepetition', 'withRepetition',
           'withRepetition', 'padTo', 'padTo', 'padTo', 'withMapping', 'withParallelChannels',
           'withParallelChannels', 'withTimeReversal', 'withTimeReversal', 'withIteration', 'withParallelAtomic']


def _names(pt) -> dict:
    out = {}
    for attr in ('parameter_names', 'measurement_names', 'defined_channels'):
        try:
            out[attr] = sorted(ptgen.chan_atom(x) for x in getattr(pt, attr))
        except Exception as exc:  # noqa
            out[attr] = 'error:' + core.classify_exception(exc)
    return out


def _plain_seq(g, env, chans, depth, decorated=None):
    """a SequencePT spec; decorated in {'id','meas','cons',None}"""
    r = g.rng
    subs = [g.template(r.randrange(1, depth + 1), chans, env) for _ in range(r.choice([1, 2, 2, 3]))]
    spec = {'k': 'seq', 'subs': subs, 'meas': [], 'cons': []}
    if decorated == 'id':
        spec['id'] = g.fresh('sq')
    elif decorated == 'meas':
        spec['meas'] = [['m', '0', '0.5']]
    elif decorated == 'cons':
        spec['cons'] = ['%s >= 0' % r.choice(list(env.times))]
    return g.attach(spec)


def _kw_sx(kw) -> Any:
    from qupulse.expressions import ExpressionScalar
    if not kw:
        return 'none'
    return [kw.get('identifier') or 'none',
            [[n_, ptgen.num_frac(b), ptgen.num_frac(l)] for n_, b, l in kw.get('measurements', [])],
            [ptgen.sympy_sx(ExpressionScalar(c).sympified_expression) for c in kw.get('parameter_constraints', [])]]


def build_helper(kind: str, rng, depth: int):
    """draw the arguments of one helper application; returns a dict with H (helper result), E (explicit nesting),
    args (S-expression fields), meta, values (parameter values), or 'raises' if the helper raised although the
    explicit nesting could be built; None if the draw is not usable"""
    import qupulse.pulses as qp
    from qupulse.expressions import ExpressionScalar
    from qupulse.pulses.multi_channel_pulse_template import ParallelChannelPulseTemplate
    g = ptgen.Gen(rng, depth, avoid_pf11=1.0)
    env, values = g.params()
    chans = ptgen.CHAN_POOL[:rng.choice([1, 1, 2])]
    extra_params: Dict[str, Any] = {}
    meta: Dict[str, Any] = {}
    E = None
    helper = None        # closure calling the helper on the real class

    if kind in ('concatenate', 'matmul', 'withAppended'):
        n = 2 if kind == 'matmul' else rng.choice([2, 3, 3, 4])
        parts = []
        for _ in range(n):
            k = rng.random()
            if k < 0.35:
                parts.append(_plain_seq(g, env, chans, depth))
            elif k < 0.6:
                parts.append(_plain_seq(g, env, chans, depth, rng.choice(['id', 'meas', 'cons'])))
            else:
                parts.append(g.template(rng.randrange(1, depth + 1), chans, env))
        objs = [ptgen.build(p) for p in parts]
        kw: Dict[str, Any] = {}
        if kind == 'concatenate' and rng.random() < 0.5:
            if rng.random() < 0.5:
                kw['identifier'] = 'cc'
            if rng.random() < 0.6:
                kw['measurements'] = [('w', 0, 0.25)]
            if rng.random() < 0.4:
                kw['parameter_constraints'] = ['%s >= 0' % rng.choice(list(env.times))]
        if kind == 'concatenate':
            E = qp.SequencePT(*objs, **kw)
            helper = lambda: qp.SequencePT.concatenate(*objs, **kw)  # noqa
            args = [['args'] + [ptgen.to_sx(o) for o in objs], ['kw', _kw_sx(kw)]]
        elif kind == 'matmul':
            E = qp.SequencePT(objs[0], objs[1])
            helper = lambda: objs[0] @ objs[1]  # noqa
            args = [['args'] + [ptgen.to_sx(o) for o in objs], ['kw', 'none']]
        else:
            if rng.random() < 0.15:
                objs = objs[:1]
            E = qp.SequencePT(*objs) if len(objs) > 1 else objs[0]
            helper = lambda: objs[0].with_appended(*objs[1:])  # noqa
            args = [['arg', ptgen.to_sx(objs[0])], ['args'] + [ptgen.to_sx(o) for o in objs[1:]]]
        meta['flattened'] = sum(1 for o in objs if type(o) is qp.SequencePT and o.identifier is None
                                and not o.measurement_declarations and not o.parameter_constraints)
    elif kind == 'withRepetition':
        shape = rng.choice(['rep', 'rep', 'rep_meas', 'rep_id', 'rep_cons', 'other'])
        body = g.template(rng.randrange(1, depth + 1), chans, env)
        cs, _cv = g.count(env)
        if shape == 'other':
            inner_spec = body
        else:
            inner_spec = {'k': 'rep', 'body': body, 'count': cs, 'meas': [], 'cons': []}
            if shape == 'rep_meas':
                inner_spec['meas'] = [['m', '0', '0.25']]
            if shape == 'rep_id':
                inner_spec['id'] = g.fresh('rp')
            if shape == 'rep_cons':
                inner_spec['cons'] = ['%s >= 0' % rng.choice(list(env.times))]
            inner_spec = g.attach(inner_spec)
        inner = ptgen.build(inner_spec)
        style = rng.choice(['int', 'expr', 'expr', 'str', 'neg'])
        if style == 'int':
            cnt: Any = rng.choice([0, 1, 2, 3])
            cnt_expr = ExpressionScalar(cnt)
        elif style in ('expr', 'neg'):
            extra_params['kk'] = rng.choice([0, 1, 2, 3]) if style == 'expr' else rng.choice([-1, -2])
            cnt = ExpressionScalar('kk')
            cnt_expr = cnt
        else:
            extra_params['kk'] = rng.choice([1, 2, 3])
            cnt = 'kk'
            cnt_expr = ExpressionScalar('kk')
        if style == 'neg' and shape != 'other':
            # make the inner count negative as well in half of the cases (class of PF-C05d)
            for name in list(inner.repetition_count.variables):
                if name in values and rng.random() < 0.5:
                    values[name] = -abs(int(values[name])) - 1
                    meta['inner_negative'] = True
        meta['shape'], meta['style'] = shape, style
        E = qp.RepetitionPT(inner, cnt)
        helper = lambda: inner.with_repetition(cnt)  # noqa
        args = [['arg', ptgen.to_sx(inner)], ['count', ptgen.expr_sx(cnt_expr)]]
    elif kind == 'withMapping':
        shape = rng.choice(['plain', 'plain', 'chained', 'chained', 'chained_drop', 'chained_cons'])
        body = g.template(rng.randrange(1, depth + 1), chans, env)
        inner0 = ptgen.build(body)

        def draw_maps(t, tag):
            kw_: Dict[str, Any] = {}
            pn = sorted(t.parameter_names)
            if pn and rng.random() < 0.7:
                p = rng.choice(pn)
                if p in env.volts:
                    kw_['parameter_mapping'] = {p: '%s + 0.5' % p}
                elif p in env.times:
                    kw_['parameter_mapping'] = {p: '2*%s' % p}
                if len(pn) >= 2 and rng.random() < 0.3:
                    a_, b_ = rng.sample(pn, 2)
                    if (a_ in env.volts and b_ in env.volts) or (a_ in env.times and b_ in env.times):
                        kw_['parameter_mapping'] = {a_: b_, b_: a_}
            ch_ = sorted(t.defined_channels)
            if rng.random() < 0.6 or not kw_:
                kw_['channel_mapping'] = {ch_[0]: tag}
            mn = sorted(t.measurement_names)
            if mn and rng.random() < 0.6:
                kw_['measurement_mapping'] = {mn[0]: tag.lower() * 2}
            if 'parameter_mapping' in kw_:
                kw_['allow_partial_parameter_mapping'] = True
            return kw_
        if shape == 'plain':
            inner = inner_named = inner0
        else:
            m1 = draw_maps(inner0, 'Y')
            if shape == 'chained_drop':
                chs = sorted(inner0.defined_channels)
                if len(chs) < 2:
                    return None
                m1['channel_mapping'] = {chs[-1]: None}
            if shape == 'chained_cons':
                m1['parameter_constraints'] = ['%s >= 0' % rng.choice(list(env.times))]
            m1n = copy.deepcopy(m1)
            inner = qp.MappingPT(inner0, **m1)
            inner_named = qp.MappingPT(inner0, identifier='keep__', **m1n)
        kwargs = draw_maps(inner, 'Z')
        positional = rng.random() < 0.5 and shape in ('plain', 'chained')
        meta['shape'] = shape
        meta['style'] = 'positional' if positional else 'keywords'
        E = qp.MappingPT(inner_named, **copy.deepcopy(kwargs))
        if positional:
            pos = [v for k_, v in kwargs.items() if k_ != 'allow_partial_parameter_mapping']
            if 'parameter_mapping' in kwargs and set(kwargs['parameter_mapping']) != set(inner.parameter_names):
                helper = lambda: inner.with_mapping(**copy.deepcopy(kwargs))  # noqa -- positional form needs complete mappings
                meta['style'] = 'keywords'
            else:
                helper = lambda: inner.with_mapping(*copy.deepcopy(pos))  # noqa
        else:
            helper = lambda: inner.with_mapping(**copy.deepcopy(kwargs))  # noqa
        pm_ = kwargs.get('parameter_mapping', {})
        mm_ = kwargs.get('measurement_mapping', {})
        cm_ = kwargs.get('channel_mapping', {})
        args = [['arg', ptgen.to_sx(inner)],
                ['pm'] + [[p, ptgen.expr_sx(ExpressionScalar(pm_.get(p, p)))] for p in sorted(inner.parameter_names)],
                ['mmap'] + [[n_, mm_.get(n_, n_)] for n_ in sorted(inner.measurement_names)],
                ['cmap'] + [[c, 'none' if cm_.get(c, c) is None else cm_.get(c, c)] for c in sorted(inner.defined_channels)]]
    elif kind == 'withParallelChannels':
        shape = rng.choice(['plain', 'par', 'par', 'par_id'])
        body = g.template(rng.randrange(1, depth + 1), chans, env)
        inner = ptgen.build(body)
        if shape != 'plain':
            inner = ParallelChannelPulseTemplate(inner, {rng.choice(['D', chans[0], 0]): rng.choice(['0.5', 'v0'])},
                                                 identifier='pq' if shape == 'par_id' else None)
        values2 = {rng.choice(['D', 'E', chans[-1], 0, 3]): rng.choice(['0.25', 'v1', '-1'])}       # integer ids are legal
        meta['shape'] = shape
        meta['overlap'] = shape != 'plain' and bool(set(values2) & set(inner.overwritten_channels))
        E = ParallelChannelPulseTemplate(inner, values2)
        helper = lambda: inner.with_parallel_channels(values2)  # noqa
        args = [['arg', ptgen.to_sx(inner)],
                ['values'] + [[ptgen.chan_atom(c), ptgen.expr_sx(ExpressionScalar(v))] for c, v in values2.items()]]
    elif kind == 'withTimeReversal':
        shape = rng.choice(['plain', 'rev', 'rev', 'rev_id'])
        body = g.template(rng.randrange(1, depth + 1), chans, env)
        inner = ptgen.build(body)
        if shape != 'plain':
            inner = qp.TimeReversalPT(inner, identifier='rv' if shape == 'rev_id' else None)
        meta['shape'] = shape
        E = qp.TimeReversalPT(inner)
        helper = lambda: inner.with_time_reversal()  # noqa
        args = [['arg', ptgen.to_sx(inner)]]
    elif kind == 'withIteration':
        idx = 'jj'
        rngspec, vals = g.loop_range(env)
        body = g.template(rng.randrange(1, depth + 1), chans, env.with_idx(idx, vals or [0]), idx)
        inner = ptgen.build(body)
        E = qp.ForLoopPT(inner, idx, tuple(rngspec))
        helper = lambda: inner.with_iteration(idx, tuple(rngspec))  # noqa
        r_ = E.loop_range
        args = [['arg', ptgen.to_sx(inner)], ['idx', idx], ['start', ptgen.expr_sx(r_.start)],
                ['stop', ptgen.expr_sx(r_.stop)], ['step', ptgen.expr_sx(r_.step)]]
    elif kind == 'withParallelAtomic':
        common = g.p2time(env)
        a = g.atom([chans[0]], env, common, None, allow_multi=False)
        shape = rng.choice(['plain', 'multi', 'multi', 'multi_id'])
        inner = ptgen.build(a)
        if shape != 'plain':
            b = ptgen.build(g.atom(['C'], env, common, None, allow_multi=False))
            kw2: Dict[str, Any] = {'measurements': [('m', 0, 0.25)]} if rng.random() < 0.5 else {}
            if shape == 'multi_id':
                kw2['identifier'] = 'am'
            inner = qp.AtomicMultiChannelPT(inner, b, **kw2)
        par = [ptgen.build(g.atom([c], env, common, None, allow_multi=False))
               for c in rng.sample(['D', 'E'], rng.choice([0, 1, 2]))]
        meta['shape'] = shape
        E = qp.AtomicMultiChannelPT(inner, *par) if par else inner
        helper = lambda: inner.with_parallel_atomic(*par)  # noqa
        args = [['arg', ptgen.to_sx(inner)], ['args'] + [ptgen.to_sx(p) for p in par]]
    else:
        raise core.MachineryError('unknown helper %r' % kind)
    try:
        H = helper()
    except Exception as exc:  # noqa -- the explicit nesting exists, the helper raises: an observation
        return {'raises': core.classify_exception(exc) + ': ' + str(exc)[:120], 'E': E, 'meta': meta, 'args': args,
                'values': {**values, **extra_params}}
    values = {**values, **extra_params}
    return {'H': H, 'E': E, 'args': args, 'meta': meta, 'values': values}


def work_helper(desc: dict) -> Optional[dict]:
    """build helper(real) and the explicit nesting (real), instantiate both, produce the Lean request"""
    import warnings
    warnings.filterwarnings('ignore')
    core.ensure_repo_on_path()
    rng = random.Random(desc['seed'])
    kind = desc['helper']
    depth = desc.get('depth', 2)
    for _attempt in range(12):
        if kind == 'padTo':
            r = _pad_case(rng, desc, depth)
            if r is not None:
                return r
            continue
        try:
            b = build_helper(kind, rng, depth)
        except core.MachineryError:
            raise
        except Exception:  # noqa -- ill-formed draw (constructor rejects it)
            continue
        if b is None:
            continue
        if 'raises' in b:
            return {'helper': kind, 'meta': b['meta'], 'helper_raises': b['raises'],
                    'explicit_sx': sx(ptgen.to_sx(b['E'])), 'seed': desc['seed'], 'params': {}}
        H, E = b['H'], b['E']
        used = set(H.parameter_names) | set(E.parameter_names)
        params = {k: v for k, v in b['values'].items() if k in used}
        case = {'params': params, 'cm': {}, 'mm': None}
        return _finish_helper(kind, H, E, b['args'], case, b['meta'], desc['seed'], rng)
    return None


def _pad_case(rng, desc, depth):
    """pad_to: the explicit nesting is built by hand from the pulse's OWN final sample values (Lean's denote of
    the un-padded template), not from the template's `final_values` property"""
    from qupulse.utils import to_next_multiple
    g = ptgen.Gen(rng, depth, avoid_pf11=1.0)
    env, values = g.params()
    chans = ptgen.CHAN_POOL[:rng.choice([1, 1, 2])]
    meta: Dict[str, Any] = {}
    try:
        body = g.template(rng.randrange(1, depth + 1), chans, env)
        inner = ptgen.build(body)
    except Exception:  # noqa
        return None
    meta['kinds'] = sorted(set(ptgen.spec_kinds(body)))
    used = set(inner.parameter_names)
    params = {k: v for k, v in values.items() if k in used}
    try:
        dur = ptgen.num_frac(inner.duration.evaluate_in_scope(dict(params)))
    except Exception:  # noqa
        return None
    if dur <= 0:
        return None
    style = rng.choice(['numeric', 'numeric', 'symbolic', 'callable', 'same', 'kwargs'])
    extra = {}
    pt_kwargs = None
    if style == 'numeric':
        target: Any = float(dur + rng.choice([F(1, 2), F(1), F(3, 4), F(2)]))
        new_dur = F(target)
    elif style == 'symbolic':
        extra['d_new'] = float(dur + rng.choice([F(1, 2), F(1), F(2)]))
        target = 'd_new'
        new_dur = F(extra['d_new'])
    elif style == 'callable':
        q = rng.choice([2, 4])
        target = to_next_multiple(1, q)
        new_dur = F(math.ceil(dur / q) * q)
    elif style == 'same':
        target = inner.duration
        new_dur = dur
    else:
        target = float(dur + F(1))
        new_dur = F(target)
        pt_kwargs = {'identifier': 'padded'} if rng.random() < 0.5 else {'measurements': [('w', 0, 0.5)]}
    meta['style'] = style
    try:
        H = inner.pad_to(target, pt_kwargs) if pt_kwargs else inner.pad_to(target)
    except NotImplementedError:
        return None              # final_values is not implemented for this class (e.g. TimeReversalPT)
    except Exception as exc:  # noqa
        return {'helper': 'padTo', 'meta': meta, 'helper_raises': core.classify_exception(exc) + ': ' + str(exc)[:120],
                'explicit_sx': sx(ptgen.to_sx(inner)), 'seed': desc['seed'], 'params': {}}
    params.update(extra)
    case = {'params': params, 'cm': {}, 'mm': None}
    # the values the un-padded pulse ends on: its last played waveform sampled at its own duration
    import numpy as np
    import qupulse.pulses as qp
    try:
        prog = create(inner, case)
    except Exception:  # noqa
        return None
    if prog is None:
        return None
    leaf = prog
    while not leaf.is_leaf():
        leaf = leaf[len(leaf) - 1]
    wf = leaf.waveform
    finals = {}
    for ch in sorted(wf.defined_channels):
        v = wf.get_sampled(ch, np.array([float(wf.duration)]))[0]
        if math.isnan(v):
            return None
        finals[ch] = F(float(v))
    pad_dur = new_dur - dur
    # explicit nesting by hand, as the docstring of pad_to describes it: the template followed by a constant
    # template of the missing duration holding the template's final values
    from qupulse.expressions import ExpressionScalar
    try:
        new_expr = target(inner.duration) if callable(target) else ExpressionScalar(target)
        pad_expr = new_expr - inner.duration
        fv = inner.final_values
        if pad_expr == 0 and not pt_kwargs:
            E = inner
        else:
            E = qp.SequencePT(inner, qp.ConstantPT(pad_expr, fv), **(pt_kwargs or {}))
    except Exception:  # noqa
        return None
    args = [['arg', ptgen.to_sx(inner)], ['pad', ptgen.expr_sx(ExpressionScalar(pad_expr))],
            ['finals'] + [[c, ptgen.expr_sx(ExpressionScalar(v))] for c, v in fv.items()],
            ['zero', bool(pad_expr == 0)], ['kw', _kw_sx(pt_kwargs)]]
    meta['is_self'] = H is inner
    meta['pad_dur'] = str(pad_dur)
    rec = _finish_helper('padTo', H, E, args, case, meta, desc['seed'], rng, arg_names=set(extra))
    # secondary (C07's scope, recorded only): does the pad hold the value the pulse was actually left on?
    if rec['H']['status'] == 'ok' and pad_dur > 0 and isinstance(rec['H']['chans'], list):
        t_pad = dur + pad_dur / 2
        where = _locate(create(H, case), t_pad)
        if where is not None:
            leaf_p, lt = where
            vals = {ch: F(float(leaf_p.waveform.get_sampled(ch, np.array([float(lt)]))[0])) for ch in finals
                    if ch in leaf_p.waveform.defined_channels}
            rec['meta']['pad_holds_last_played'] = all(vals.get(ch) == finals[ch] for ch in vals)
    return rec


def _observe_plain(pt, case, grid, rng) -> dict:
    try:
        prog = create(pt, case)
    except Exception as exc:  # noqa
        return {'status': 'error', 'error': core.classify_exception(exc), 'msg': str(exc)[:160]}
    return observe_program(prog, grid, rng)


def _finish_helper(kind, H, E, args, case, meta, seed, rng, arg_names=()) -> dict:
    hobs = _observe_plain(H, case, None, rng)
    grid = hobs.get('grid') if hobs['status'] == 'ok' else None
    eobs = _observe_plain(E, case, grid, rng)
    if grid is None and eobs['status'] == 'ok':
        grid = eobs['grid']
    grid = grid or []
    fields = ['c05', 'helper', kind] + args + [
        ['params'] + [[k, ptgen.num_frac(v)] for k, v in case['params'].items()],
        ['mm', 'none'], ['cm'], ['single'], ['grid'] + list(grid)]
    return {'helper': kind, 'meta': meta, 'H': hobs, 'E': eobs, 'grid': grid, 'line': sx(fields),
            'names_H': _names(H), 'names_E': _names(E), 'params': case['params'], 'seed': seed,
            'pf11_E': sorted(ptgen.chan_atom(c) for c in ptcheck.pf11_channels(E, {c: c for c in E.defined_channels})),
            'pf11_H': sorted(ptgen.chan_atom(c) for c in ptcheck.pf11_channels(H, {c: c for c in H.defined_channels})),
            'H_sx': sx(ptgen.to_sx(H)), 'E_sx': sx(ptgen.to_sx(E)), 'arg_names': sorted(arg_names)}


def _spec_of(reply, name) -> dict:
    spec = ptgen.parse_obs(ptgen._field(reply, name)[0])
    if spec['status'] == 'ok':
        spec['adm'] = {ch: [[core.as_frac(v) for v in pt_vals] for pt_vals in vals]
                       for ch, vals in spec['samples_raw'].items()}
    return spec


def _filter_known(ctx, fs: List[Finding], known_ids, count) -> List[Finding]:
    rest = []
    for f in fs:
        if f.known and f.known in known_ids:
            note_known(ctx, f.known, f.what, count)
        else:
            rest.append(f)
    return rest


def _wfmt(w):
    return w if isinstance(w, str) else ptcheck._short(ptcheck.fmt_w(w))


def assess_helper(ctx, rec: dict, reply, count=True) -> List[Finding]:
    out: List[Finding] = []
    kind = rec['helper']
    known_ids = {k['finding'] for k in ctx.findings.for_property(PID)}
    meta = rec['meta']
    if count:
        ctx.count('helper:' + kind)
        for k, v in meta.items():
            if k in ('shape', 'style', 'pad_holds_last_played'):
                ctx.count('helper:%s:%s=%s' % (kind, k, v))
    if 'helper_raises' in rec:
        f = Finding('helper-raises', '%s raises %s although the explicit nesting can be built (%s)'
                    % (kind, rec['helper_raises'], meta),
                    known='PF-C05a' if (kind == 'withRepetition' and meta.get('style') == 'str' and meta.get('shape') in ('rep', 'rep_cons'))
                    else ('PF-C05b' if (kind == 'withMapping' and meta.get('shape') == 'chained_drop') else None))
        if count:
            ctx.case('helper-raises:' + rec['explicit_sx'][:300], nontrivial=True)
        return _filter_known(ctx, [f], known_ids, count)
    H, E = rec['H'], rec['E']
    if count:
        ctx.case(rec['line'], nontrivial=H['status'] == 'ok')
        ctx.count('helper-impl:' + H['status'])
    tag = '%s %s' % (kind, {k: v for k, v in meta.items() if k in ('shape', 'style', 'flattened', 'overlap', 'pad_dur')})
    neg_rep = kind == 'withRepetition' and meta.get('style') == 'neg' and meta.get('inner_negative')
    pf11_h = set(rec.get('pf11_H', []))           # channels on which the helper's own program shows PF-11
    pf11 = set(rec.get('pf11_E', [])) | pf11_h    # ... or the explicit nesting's program
    # --- metamorphic: helper vs explicit nesting, both real
    if H['status'] != E['status']:
        out.append(Finding('helper-status', '%s: the helper gives %s%s, the explicit nesting %s%s (params %s)'
                           % (tag, H['status'], ':' + H.get('error', '') if H['status'] == 'error' else '',
                              E['status'], ':' + E.get('error', '') if E['status'] == 'error' else '', rec['params']),
                           known='PF-C05d' if neg_rep else ('PF-C05c' if (kind == 'withMapping' and meta.get('shape') == 'chained_cons'
                                                                    and E['status'] == 'error' and E.get('error') == 'constraint_violation') else None)))
    elif H['status'] == 'ok':
        if H['dur'] != E['dur']:
            out.append(Finding('helper-duration', '%s: helper lasts %s, explicit nesting %s' % (tag, H['dur'], E['dur'])))
        if H['windows'] != E['windows']:
            out.append(Finding('helper-windows', '%s: helper windows %s, explicit nesting %s'
                               % (tag, _wfmt(H['windows']), _wfmt(E['windows']))))
        if H['chans'] != E['chans']:
            out.append(Finding('helper-channels', '%s: helper channels %s, explicit nesting %s' % (tag, H['chans'], E['chans'])))
        elif isinstance(H['chans'], list):
            for ch in H['chans']:
                a, b = H['samples'].get(ch), E['samples'].get(ch)
                if a is None or b is None or a == b:
                    continue
                idx = next(i for i, (x, y) in enumerate(zip(a, b)) if x != y)
                in04 = idx in H['pf04'] or idx in E['pf04']
                known = 'PF-11' if ch in pf11 else ('PF-04-junction' if in04 else None)
                out.append(Finding('helper-value', '%s: on %s at t=%s the helper plays %s, the explicit nesting %s'
                                   % (tag, ch, rec['grid'][idx], a[idx], b[idx]), known=known, channel=ch))
    for attr in ('measurement_names', 'defined_channels'):
        if rec['names_H'][attr] != rec['names_E'][attr]:
            out.append(Finding('helper-names', '%s: %s of the helper %s, of the explicit nesting %s'
                               % (tag, attr, rec['names_H'][attr], rec['names_E'][attr])))
    # parameters: the helper may need fewer names (sympy simplifies 0*k, an overwritten value disappears), never a
    # name that neither the explicit nesting nor the helper's arguments mention
    ph, pe = rec['names_H']['parameter_names'], rec['names_E']['parameter_names']
    if isinstance(ph, str) or isinstance(pe, str) or (set(ph) - set(pe) - set(rec.get('arg_names', []))):
        out.append(Finding('helper-names', '%s: parameter_names of the helper %s, of the explicit nesting %s' % (tag, ph, pe)))
    # --- judge: helper(real) against denote(explicit nesting); correspondence of the Lean helper function
    if reply is not None and reply[0] != 'err':
        spec_e = _spec_of(reply, 'explicit')
        spec_h = _spec_of(reply, 'helper')
        if count:
            ctx.count('helper-spec:' + spec_e['status'])
        if H['status'] == 'ok' and spec_e['status'] == 'ok':
            fake = {'impl': impl_record(H), 'grid': rec['grid']}
            for v in ptcheck.judge(fake, {'spec': spec_e}, ('samples', 'windows', 'durations')):
                if v['clause'] == 'channels' and H['chans'] == 'nonuniform':
                    continue
                known = 'PF-11' if (v['clause'] == 'value' and v.get('channel') in pf11_h) else None
                out.append(Finding('helper-spec-' + v['clause'], '%s against denote(explicit nesting): %s' % (tag, v['what']),
                                   known=known, channel=v.get('channel')))
        elif H['status'] == 'empty' and spec_e['status'] == 'ok':
            out.append(Finding('helper-spec-empty', '%s: the helper plays nothing, the explicit nesting denotes a pulse of '
                               'duration %s' % (tag, spec_e['dur']), known='PF-C05d' if neg_rep else None))
        elif H['status'] == 'ok' and spec_e['status'] == 'empty':
            out.append(Finding('helper-spec-empty', '%s: the helper plays a program of duration %s, the explicit nesting '
                               'denotes the empty pulse (params %s)' % (tag, H['dur'], rec['params']),
                               known='PF-C05d' if neg_rep else None))
        # the Lean helper function models the real helper (compared on the observables of denote)
        if spec_h['status'] in ('ok', 'empty') and H['status'] in ('ok', 'empty') and not out:
            same = (spec_h['status'] == H['status']) and (spec_h['status'] == 'empty' or
                                                          (spec_h['dur'] == H['dur'] and spec_h['windows'] == H['windows']))
            if not same:
                ctx.drift('real helper vs QP.C05.%s' % kind, {'line': rec['line'][:600]},
                          {'status': H['status'], 'dur': str(H.get('dur')), 'windows': str(H.get('windows'))[:200]},
                          {'status': spec_h['status'], 'dur': str(spec_h.get('dur')), 'windows': str(spec_h.get('windows'))[:200]})
    elif reply is not None:
        raise core.MachineryError('driver rejected a helper request: %r / %s' % (reply, rec['line'][:300]))
    return _filter_known(ctx, out, known_ids, count)


def helper_replay_dict(r: dict, f: Finding) -> dict:
    return {'kind': 'c05-helper', 'helper': r['helper'], 'seed': r['seed'], 'depth': r.get('depth', 2), 'meta': r['meta'],
            'clause': f.clause, 'helper_sx': r.get('H_sx', '')[:3000],
            'explicit_sx': r.get('E_sx', r.get('explicit_sx', ''))[:3000],
            'params': {k: float(v) for k, v in r.get('params', {}).items()}}


def run_helper_descs(ctx, descs: List[dict], count=True) -> List[Tuple[dict, List[Finding]]]:
    workers = int(os.environ.get('VERIF_WORKERS', '0')) or (6 if ctx.quick else 14)
    if len(descs) >= 16 and workers > 1:
        mp = multiprocessing.get_context('fork')
        with mp.Pool(workers) as pool:
            recs = pool.map(work_helper, descs, chunksize=max(1, len(descs) // (workers * 4)))
    else:
        recs = [work_helper(d) for d in descs]
    recs = [r for r in recs if r is not None]
    lines = [r['line'] for r in recs if 'line' in r]
    answers = iter(core.Lean.run(lines))
    out = []
    for r in recs:
        reply = next(answers) if 'line' in r else None
        out.append((r, assess_helper(ctx, r, reply, count)))
    return out


def run_helpers(ctx, n: int):
    rng = ctx.fork('helpers')
    descs = [{'helper': rng.choice(HELPERS), 'seed': rng.getrandbits(48), 'depth': 2 if rng.random() < 0.7 else 3}
             for _ in range(n)]
    for r, fs in run_helper_descs(ctx, descs):
        if fs:
            ctx.disagreements += 1
            ctx.violation(fs[0].what, helper_replay_dict(r, fs[0]))


# ------------------------------------------------------------------------------------------------
# decimal stream: non-dyadic durations, collapsed repetition against the default program (implementation only)
# ------------------------------------------------------------------------------------------------

DEC_DURS = ['1.1', '0.3', '0.1', '0.7', '2.3', '1.9']
DEC_BODIES = ('ramp', 'table', 'point', 'multi', 'saw-down')
DEC_CONTEXTS = ('alone', 'lead', 'both', 'outer-rep', 'two-reps')
DEC_TOL = F(1, 10 ** 9)


def decimal_recipe(rng) -> dict:
    return {'d': rng.choice(DEC_DURS), 'n': rng.choice([4, 5, 6, 7, 9, 10, 12, 3, 2]), 'body': rng.choice(DEC_BODIES),
            'ctx': rng.choice(DEC_CONTEXTS), 'lead': rng.choice(['1', '0.5', '0.1', '0.3', '1.1', '2']),
            'tail': rng.choice(['1', '0.7', '0.1']), 'count_param': rng.random() < 0.5, 'by': rng.choice(['id', 'obj']),
            'v': rng.choice([1, 0.5, -2])}


def decimal_build(rc: dict):
    """(template, repetition node): a repetition `r` of an ATOMIC body whose first and last value differ, of decimal
    duration d (exact as TimeType), alone / after a lead / between lead and tail / inside an outer repetition / twice"""
    import qupulse.pulses as qp
    d, v = rc['d'], rc['v']

    def body(tag=''):
        k = rc['body']
        if k == 'ramp':
            return qp.FunctionPT('%r*t' % v, d, channel='A')
        if k == 'saw-down':
            return qp.FunctionPT('%r*(%s - t)' % (v, d), d, channel='A', measurements=[('b' + tag, 0, d)])
        if k == 'table':
            return qp.TablePT({'A': [(0, 0), (d, v, 'linear')]})
        if k == 'point':
            return qp.PointPT([(0, v), (d, 0, 'linear')], ['A'])
        return qp.AtomicMultiChannelPT(qp.FunctionPT('%r*t' % v, d, channel='A'), qp.TablePT({'B': [(0, 1), (d, -1, 'linear')]}))
    chans = {'A': -1.0, 'B': 0.25} if rc['body'] == 'multi' else {'A': -1.0}
    r = qp.RepetitionPT(body(), 'n' if rc['count_param'] else rc['n'], identifier='r', measurements=[('w', 0, d)])
    lead = qp.ConstantPT(rc['lead'], chans)
    tail = qp.ConstantPT(rc['tail'], chans)
    c = rc['ctx']
    if c == 'alone':
        return r, [r]
    if c == 'lead':
        return qp.SequencePT(lead, r), [r]
    if c == 'both':
        return qp.SequencePT(lead, r, tail), [r]
    if c == 'outer-rep':
        return qp.RepetitionPT(qp.SequencePT(lead, r), 2), [r]
    r2 = qp.RepetitionPT(body('2'), rc['n'] + 1, identifier='r2')
    return qp.SequencePT(lead, r, tail, r2), [r, r2]


def decimal_work(desc: dict) -> dict:
    """worker: default program against the program with the repetition(s) collapsed, both sampled as they are played
    (`play_samples`: every leaf owns [start, start + duration), located with exact rationals) on the grid k/10"""
    import warnings
    warnings.filterwarnings('ignore')
    core.ensure_repo_on_path()
    rc = desc['recipe']
    out: Dict[str, Any] = {'recipe': rc, 'findings': []}
    try:
        pt, reps = decimal_build(rc)
        params = {'n': rc['n']} if rc['count_param'] else {}
        base = pt.create_program(parameters=params)
        single = {x.identifier if rc['by'] == 'id' else x for x in reps}
        coll = pt.create_program(parameters=params, to_single_waveform=single)
    except Exception as exc:  # noqa
        out['findings'].append('instantiation raises %s: %s' % (core.classify_exception(exc), str(exc)[:120]))
        return out
    dur = ptgen.num_frac(base.duration)
    if ptgen.num_frac(coll.duration) != dur:
        out['findings'].append('the program lasts %s instead of %s' % (ptgen.num_frac(coll.duration), dur))
    grid = [F(k, 10) for k in range(int(dur * 10))]
    if len(grid) > 300:
        # keep every time at which a leaf (a repetition of it) of the default program starts, thin out the rest
        starts: set = set()

        def walk(l, t0: F) -> F:
            bd = ptgen.num_frac(l.body_duration)
            for k in range(l.repetition_count):
                if l.is_leaf():
                    starts.add(t0 + k * bd)
                else:
                    t = t0 + k * bd
                    for c in l:
                        t = walk(c, t)
            return t0 + l.repetition_count * bd
        walk(base, F(0))
        rng = random.Random(desc['seed'])
        grid = sorted({t for t in grid if t in starts} | set(rng.sample(grid, 120)))
    out['grid_points'] = len(grid)
    chans = sorted(ptgen.chan_atom(c) for c in ptgen.leaf_channel_sets(base)[0])
    sb, _ = play_samples(base, chans, grid)
    sc, _ = play_samples(coll, chans, grid)
    for ch in chans:
        for t, a, b in zip(grid, sb[ch], sc[ch]):
            if isinstance(a, F) and isinstance(b, F):
                if abs(a - b) <= DEC_TOL:
                    continue
            elif a == b:
                continue
            out['findings'].append('the sample on %s at t=%s is %s, the default program plays %s'
                                   % (ch, t, float(b) if isinstance(b, F) else b, float(a) if isinstance(a, F) else a))
            break

    def wins(prog):
        return sorted((name, round(float(b), 9), round(float(l), 9)) for name, (bs, ls) in prog.get_measurement_windows().items()
                      for b, l in zip(bs, ls))
    if wins(base) != wins(coll):
        out['findings'].append('the measurement windows change')
    return out


def decimal_report(ctx, out: dict, count=True) -> bool:
    rc = out['recipe']
    if count:
        ctx.case('decimal:' + json.dumps(rc, sort_keys=True), nontrivial=True)
        ctx.count('decimal-stream')
        ctx.count('decimal:ctx=' + rc['ctx'])
        ctx.count('decimal:grid-points', out.get('grid_points', 0))
    for f in out['findings']:
        ctx.violation('decimal durations: with the repetition r (%s times a %s body of duration %s, %s) given as to_single_waveform %s '
                      '[recipe %s]' % (rc['n'], rc['body'], rc['d'], rc['ctx'], f, json.dumps(rc, sort_keys=True)),
                      {'kind': 'c05-decimal', 'recipe': rc})
        return False
    return True


def decimal_stream(ctx, n: int):
    rng = ctx.fork('decimal')
    descs = [{'recipe': decimal_recipe(rng), 'seed': i} for i in range(n)]
    workers = int(os.environ.get('VERIF_WORKERS', '0')) or (6 if ctx.quick else 14)
    if workers > 1 and len(descs) >= 16:
        with multiprocessing.get_context('fork').Pool(workers) as pool:
            outs = pool.map(decimal_work, descs, chunksize=4)
    else:
        outs = [decimal_work(d) for d in descs]
    bad = 0
    for o in outs:
        if not decimal_report(ctx, o):
            bad += 1
    if bad:
        ctx.disagreements += bad


# ------------------------------------------------------------------------------------------------
# corpus / replay
# ------------------------------------------------------------------------------------------------

def replay_options(ctx, rec: dict, count=False):
    desc = {'family': 'given', 'seed': 0, 'case': rec['case'], 'label': rec.get('label') or 'replay',
            'opts': [{'single': rec.get('single', []), 'gt': rec.get('gt')}]}
    if rec.get('grid'):
        desc['grid'] = [F(t) for t in rec['grid']]
    r = work_options(desc)
    if r is None:
        return [], None
    attach_replies([r])
    return assess_tree(ctx, r, r['replies'], count=count), r


def replay_script(ctx, rec: dict, count=False) -> bool:
    """hand written witnesses (python source defining `witness()` -> [(what, holds, finding-id or None)])"""
    core.ensure_repo_on_path()
    env: Dict[str, Any] = {}
    exec(compile(rec['source'], rec.get('_file', '<corpus>'), 'exec'), env)   # corpus files are part of the check
    known_ids = {k['finding'] for k in ctx.findings.for_property(PID)}
    ok = True
    for what, holds, finding in env['witness']():
        if count:
            ctx.case('script:%s:%s' % (rec.get('_file'), what[:80]), nontrivial=True)
        if holds:
            continue
        if finding and finding in known_ids:
            ctx.known_finding(finding, what)
        else:
            ctx.violation('%s [corpus %s]' % (what, rec.get('_file')), {'kind': 'c05-script', 'source': rec['source']})
            ok = False
    return ok


def replay(ctx: core.Ctx, rec: dict, from_corpus: bool = False) -> bool:
    kind = rec.get('kind')
    if kind == 'c05-options':
        bad, r = replay_options(ctx, rec, count=from_corpus)
        if bad:
            o, f = bad[0]
            ctx.violation('%s [replay]' % f.what, replay_dict(r, o, f))
            return False
        return True
    if kind == 'c05-helper':
        res = run_helper_descs(ctx, [{'helper': rec['helper'], 'seed': rec['seed'], 'depth': rec.get('depth', 2)}], count=from_corpus)
        for r, fs in res:
            if fs:
                ctx.violation('%s [replay]' % fs[0].what, helper_replay_dict(r, fs[0]))
                return False
        return True
    if kind == 'c05-decimal':
        return decimal_report(ctx, decimal_work({'recipe': rec['recipe'], 'seed': 0}), count=from_corpus)
    if kind == 'c05-script':
        return replay_script(ctx, rec, count=from_corpus)
    return True


# ------------------------------------------------------------------------------------------------
# run
# ------------------------------------------------------------------------------------------------

def _descs(ctx, n_random, n_malformed, depth, n_gt):
    descs = []
    base = ctx.fork('random').getrandbits(48)
    for i in range(n_random):
        d = depth if i % 3 else max(2, depth - 1)
        descs.append({'family': 'random', 'seed': base + i, 'depth': d, 'n_gt': n_gt, 'gen': {'avoid_pf11': 0.93}})
    base = ctx.fork('small').getrandbits(48)
    for i in range(n_random // 2):
        descs.append({'family': 'random', 'seed': base + i, 'depth': 2 + (i % 2), 'n_gt': n_gt, 'label': 'random-small',
                      'gen': {'avoid_pf11': 0.93}})
    base = ctx.fork('zero').getrandbits(48)
    for i in range(n_random // 4):
        # more zero repetition counts / empty ranges and more measurement declarations: composites that declare windows
        # around parts that play nothing
        descs.append({'family': 'random', 'seed': base + i, 'depth': 3 + (i % 2), 'n_gt': 1, 'label': 'random-zero',
                      'gen': {'avoid_pf11': 0.93, 'zero_p': 0.3, 'measure_p': 0.8}})
    base = ctx.fork('malformed').getrandbits(48)
    for i in range(n_malformed):
        descs.append({'family': 'malformed', 'seed': base + i, 'n_gt': 0})
    return descs


def _constant_level_descs(ctx, n):
    """targeted family: sequences of constant pieces whose levels start with exactly 0 (and repeat), collapsed as a
    whole and in parts — `SequenceWaveform.constant_value` / `from_sequence` decide from the pieces' constants
    whether the collapsed waveform is constant"""
    rng = ctx.fork('constant-levels')
    descs = []
    for i in range(n):
        levels = [F(0)] * rng.choice([1, 1, 2]) + [F(rng.choice([k for k in range(-16, 17) if k]), 8)] * rng.choice([1, 2])
        if rng.random() < 0.4:
            levels.append(F(rng.randrange(-16, 17), 8))
        if rng.random() < 0.25:
            rng.shuffle(levels)
        two = rng.random() < 0.4
        subs = []
        for v in levels:
            amps = [['A', fstr_(v)]] + ([['B', fstr_(-v)]] if two else [])
            if rng.random() < 0.3:
                subs.append({'k': 'table', 'entries': [[c, [['0', a, 'hold'], ['1', a, 'hold']]] for c, a in amps],
                             'meas': [], 'cons': []})
            else:
                subs.append({'k': 'const', 'dur': rng.choice(['1', '0.5', '2']), 'amps': amps, 'meas': []})
        spec = {'k': 'seq', 'subs': subs, 'meas': [], 'cons': [], 'id': 'lv'}
        wrap = rng.random()
        if wrap < 0.25:
            spec = {'k': 'rep', 'body': spec, 'count': '2', 'meas': [], 'cons': []}
        elif wrap < 0.45:
            spec = {'k': 'seq', 'subs': [spec, copy.deepcopy(subs[-1])], 'meas': [], 'cons': []}
        elif wrap < 0.6:
            spec = {'k': 'arith', 'body': spec, 'op': '+', 'scalar': '0.5', 'pt_lhs': True}
        descs.append({'family': 'given', 'seed': i, 'label': 'constant-levels', 'n_gt': 1, 'max_all': 7,
                      'case': {'spec': spec, 'params': {}, 'cm': {}, 'mm': None, 'single': []}})
    return descs


def fstr_(x: F) -> str:
    return ptgen.fstr(x)


# (no FunctionPT: with duration 0 it does not play nothing -- `build_waveform` returns a zero length FunctionWaveform, which
#  ends up as a zero length leaf in the program; such programs are outside what `play_samples` can address)
EMPTY_PARTS = ('const', 'table', 'point', 'rep0', 'for0', 'seq-of-empties', 'amulti')
CARRIERS = ('rep', 'rep', 'rep-seq', 'rep-rep', 'rep-map', 'seq', 'for')
CONTEXTS = ('before', 'after', 'between', 'alone', 'in-rep', 'in-for', 'two-carriers')


def _empty_part_spec(ekind: str, ckind: str, xkind: str, two: bool) -> dict:
    """a composite that declares its OWN measurement windows around a body that plays nothing when `z == 0` /
    `k == 0`, next to parts that play (each with a window of its own)"""
    def amps(v):
        return [['A', v]] + ([['B', '0.5 - ' + v]] if two else [])

    def const(dur, v, **kw):
        return dict({'k': 'const', 'dur': dur, 'amps': amps(v), 'meas': []}, **kw)

    def play(name, mname, idx=None):
        if idx is not None:
            return const('1', '0.25 + 0.125*' + idx, id=name, meas=[[mname, '0.25', '0.5']])
        if two:
            return const('1', '0.25', id=name, meas=[[mname, '0.25', '0.5']])
        return {'k': 'table', 'entries': [['A', [['0', '0', 'hold'], ['1', '1', 'linear']]]], 'meas': [[mname, '0.25', '0.5']],
                'cons': [], 'id': name}
    if ekind == 'const':
        e = const('z', '0.125', id='e')
    elif ekind == 'table':
        e = {'k': 'table', 'entries': [[c, [['0', v, 'hold'], ['z', v, 'hold']]] for c, v in amps('0.125')], 'meas': [],
             'cons': [], 'id': 'e'}
    elif ekind == 'point':
        e = {'k': 'point', 'chans': ['A', 'B'] if two else ['A'], 'entries': [['0', '0.125', 'hold'], ['z', '0.375', 'linear']],
             'meas': [], 'cons': [], 'id': 'e'}
    elif ekind == 'rep0':
        e = {'k': 'rep', 'body': const('0.5', '0.125'), 'count': 'k', 'meas': [['V', '0', '0.25']], 'cons': [], 'id': 'e'}
    elif ekind == 'for0':
        e = {'k': 'for', 'body': const('0.5', '0.125 + i'), 'idx': 'i', 'range': ['0', 'k', '1'], 'meas': [['V', '0', '0.25']],
             'cons': [], 'id': 'e'}
    elif ekind == 'seq-of-empties':
        e = {'k': 'seq', 'subs': [const('z', '0.125'), const('2*z', '0.375', meas=[['V', '0', 'z']])], 'meas': [['V', 'z', '0.25']],
             'cons': [], 'id': 'e'}
    else:
        e = {'k': 'amulti', 'subs': [{'k': 'const', 'dur': 'z', 'amps': [['A', '0.125']], 'meas': []}] +
             ([{'k': 'const', 'dur': 'z', 'amps': [['B', '0.25']], 'meas': []}] if two else []), 'meas': [['V', '0', 'z']],
             'cons': [], 'id': 'e'}
    w = [['W', '0', '0.5']]
    if ckind == 'rep':
        r = {'k': 'rep', 'body': e, 'count': 'n', 'meas': w, 'cons': [], 'id': 'r'}
    elif ckind == 'rep-seq':
        r = {'k': 'rep', 'body': {'k': 'seq', 'subs': [e, copy.deepcopy(dict(e, id='e2'))], 'meas': [['U', '0', '0.25']],
                                  'cons': []}, 'count': '3', 'meas': w, 'cons': [], 'id': 'r'}
    elif ckind == 'rep-rep':
        r = {'k': 'rep', 'body': {'k': 'rep', 'body': e, 'count': '2', 'meas': [['U', '0', '0.25']], 'cons': [], 'id': 'q'},
             'count': 'n', 'meas': w, 'cons': [], 'id': 'r'}
    elif ckind == 'rep-map':
        r = {'k': 'rep', 'body': {'k': 'map', 'body': e, 'pm': None, 'mm': [['V', 'VV']] if e['meas'] else None, 'cm': None},
             'count': 'n', 'meas': w, 'cons': [], 'id': 'r'}
    elif ckind == 'seq':
        r = {'k': 'seq', 'subs': [e], 'meas': w, 'cons': [], 'id': 'r'}
    else:
        pn = 'k' if ekind in ('rep0', 'for0') else 'z'            # the loop index has to be used: the emptiness parameter
        r = {'k': 'for', 'body': {'k': 'map', 'body': e, 'pm': [[pn, '%s*(j + 1)' % pn]], 'mm': None, 'cm': None}, 'idx': 'j',
             'range': ['0', 'n', '1'], 'meas': w, 'cons': [], 'id': 'r'}

    def seq(*subs, **kw):
        return dict({'k': 'seq', 'subs': list(subs), 'meas': [], 'cons': [], 'id': 'top'}, **kw)
    p1, p2 = play('p1', 'P'), play('p2', 'Q')
    if xkind == 'before':
        return seq(r, p1)
    if xkind == 'after':
        return seq(p1, r, meas=[['T', '0', '1']])
    if xkind == 'between':
        return seq(p1, r, p2)
    if xkind == 'alone':
        return r
    if xkind == 'in-rep':
        return {'k': 'rep', 'body': seq(r, p1, id='s'), 'count': '2', 'meas': [['T', '0', '1']], 'cons': [], 'id': 'top'}
    if xkind == 'in-for':
        return {'k': 'for', 'body': seq(r, play('p1', 'P', 'm'), id='s'), 'idx': 'm', 'range': ['0', '2', '1'], 'meas': [],
                'cons': [], 'id': 'top'}
    r2 = copy.deepcopy(r)
    for node in ptgen.spec_nodes(r2):
        if node.get('id'):
            node['id'] += 'b'
        if node['k'] == 'map':
            node['mm'] = [[a + 'b', b] for a, b in node['mm']] if node.get('mm') else node.get('mm')
        else:
            node['meas'] = [[m[0] + 'b'] + m[1:] for m in node.get('meas') or []]
    return seq(r, r2, p1)


def _empty_part_descs(ctx, n):
    """targeted family (after seeded change C05-C): repetition / sequence / iteration nodes WITH their own measurement
    declarations whose body is empty at the chosen parameters (zero duration, zero count / empty range nested inside),
    placed before / after / between parts that play, alone, inside loops; all subsets as to_single_waveform.  A
    composite that plays nothing contributes no window under any option set (judge: denote)."""
    rng = ctx.fork('empty-parts')
    space = [(e, c, x, two) for e in EMPTY_PARTS for c in sorted(set(CARRIERS)) for x in CONTEXTS for two in (False, True)
             ]
    ctx.exhaustive_spaces.append('composites with own measurement windows around a body that is empty at the parameters: %d '
                                 'empty parts x %d carriers x %d contexts x 1-2 channels = %d trees (quick: %d of them), each '
                                 'with z = 0 / k = 0 and, for one in four, with a playing body as control'
                                 % (len(EMPTY_PARTS), len(set(CARRIERS)), len(CONTEXTS), len(space), min(n, len(space))))
    chosen = space if n >= len(space) else rng.sample(space, n)
    descs = []
    for i, (e, c, x, two) in enumerate(chosen):
        spec = _empty_part_spec(e, c, x, two)
        params = {'z': 0, 'k': 0, 'n': rng.choice([1, 2, 3])}
        if rng.random() < 0.25:
            # control: the body plays.  n <= 2 keeps the iterated durations z*(j + 1) powers of two (exact ramps)
            params.update({'z': 0.5, 'k': 1, 'n': rng.choice([1, 2])})
        descs.append({'family': 'given', 'seed': i, 'label': 'empty-parts', 'n_gt': 1, 'max_all': 6, 'n_random': 10,
                      'case': {'spec': spec, 'params': params, 'cm': {}, 'mm': None, 'single': []}})
    return descs


def _with_ids(rng, spec):
    """identifiers on about half of the nodes of an enumerated nesting"""
    spec = copy.deepcopy(spec)
    for k, n in enumerate(ptgen.spec_nodes(spec)):
        if rng.random() < 0.5:
            n['id'] = 'x%d' % k
    return spec


def run(ctx: core.Ctx):
    ctx.rule = ('template trees from the shared generator ptgen (all 13 node kinds, real classes, dyadic numbers; random depth <= 4 '
                'quick / <= 5 thorough, plus the nestings of depth <= 3 over two atoms); per tree the default program and option '
                'sets: ALL subsets of its sub-templates as to_single_waveform for trees with <= 6 nodes (each node given by '
                'identifier or by object), 8 random subsets otherwise, global transformations identity / offset / scaling / '
                'linear 2x2, 2->3, 3->2 / parallel channel / chains alone and combined with a subset (35 % of the parallel channel '
                'transformations and of the with_parallel_channels / ParallelChannelPT helper arguments add or overwrite INTEGER channel '
                'ids, incl. 0; they travel to Lean as the atoms #k); grids = piece boundaries, '
                'boundaries +-1/16, 0, regular grids, strictly inside [0, duration); helper constructors on generated '
                'templates against the explicit nesting; decimal stream (implementation only, tolerance 1e-9): a repetition of an atomic '
                'body with different first / last value and decimal duration (0.1, 0.3, 0.7, 1.1, 1.9, 2.3, exact as TimeType), 2-12 times, '
                'alone / after a lead / between lead and tail / in an outer repetition / twice, given as to_single_waveform (by identifier '
                'or object) against the default program, both sampled leaf by leaf on the grid k/10 (all repetition boundaries). Non-trivial = a program is produced under a non-default option set '
                '(or by a helper); distinct by canonical request line')
    ctx.assumptions = [
        'decimal stream: a sample time float(q) of an exact rational q = k/10 on a piece boundary belongs to the later piece; values are '
        'compared with tolerance 1e-9; only a TOP-LEVEL RepetitionWaveform over an atomic body is produced (nested composite waveforms '
        'are the classes of PF-C08e / PF-C06-3)',
        'IEEE-754 arithmetic is exact on the generated dyadic numbers (voltages k/8, power-of-two segment lengths, '
        'transformation coefficients with <= 2 fractional bits)',
        'sympy parses, simplifies and lambdifies the generated rational expressions according to their mathematical meaning',
        'templates compare (`self in to_single_waveform`) by their serialisation data, as `Serializable.__eq__` defines',
        'at a piece boundary of a collapsed part inside a time reversal either one-sided limit is admissible for the spec '
        '(open finding PF-04-junction); everywhere else samples are compared exactly',
    ]
    for crec in ctx.corpus():
        replay(ctx, crec, from_corpus=True)
        ctx.corpus_replayed += 1
    depth = 4 if ctx.quick else 5
    n_gt = 2 if ctx.quick else 3
    ex_all = ptgen.exhaustive_specs(3)
    ex = ctx.fork('exhaustive').sample(ex_all, 110) if ctx.quick else ex_all
    idr = ctx.fork('exhaustive-ids')
    descs = [{'family': 'exhaustive', 'seed': i, 'spec': _with_ids(idr, s), 'n_gt': 1 if ctx.quick else 2, 'max_all': 7}
             for i, s in enumerate(ex)]
    ctx.exhaustive_spaces.append('for every evaluated tree with <= 6 nodes (<= 7 for the enumerated nestings): all non-empty '
                                 'subsets of its sub-templates as to_single_waveform; thorough tier: all %d nestings of depth '
                                 '<= 3 over two atoms (quick: %d of them)' % (len(ex_all), len(ex)))
    descs += _descs(ctx, ctx.n(150, 4000), ctx.n(24, 400), depth, n_gt)
    descs += _constant_level_descs(ctx, ctx.n(14, 200))
    descs += _empty_part_descs(ctx, ctx.n(40, 10000))
    recs = run_trees(ctx, descs)
    for rec in recs:
        bad = assess_tree(ctx, rec, rec['replies'])
        report_tree(ctx, rec, bad)
    run_helpers(ctx, ctx.n(260, 6000))
    decimal_stream(ctx, ctx.n(240, 6000))
