"""Shared pulse-template generator, serialiser and observer (C01, C02, C04; reused by C03, C05, C07, C10, C15).

* `Gen(rng, max_depth, stream)` draws *spec trees* (plain JSON-able dicts) of well-formed templates over all
  node kinds; `build(spec)` turns a spec tree into the REAL qupulse objects; `to_sx(pt)` serialises a real
  template object for the Lean model `QP.PT` by introspecting the object (so flattening / sympification done
  by the constructors is what the model sees).  Spec trees are what replay files and the shrinker work on.
* `exhaustive_specs()` enumerates all nestings of depth <= 3 over two atoms.
* `malform(rng, spec, params)` derives single-fault malformed inputs.
* `observe(case)` runs the real code and extracts the observables the properties speak about;
  `request_line` / `parse_reply` talk to the Lean driver.

Number discipline (DESIGN 2.3): all times and voltages are dyadic; every table/point segment length and
every divisor is a power of two so that every float operation the implementation performs is exact.  The
'decimal' stream (C04 only) uses short decimals as *directly given* durations.
"""
from __future__ import annotations

import fractions
import itertools
import math
import re
from typing import Any, Dict, List, Optional, Tuple

import core
from core import sx

F = fractions.Fraction

CHAN_POOL = ['A', 'B', 'C', 'D', 'E', 'G']
INT_CHAN_POOL = [0, 1, 2, 3, 4, 5]      # qupulse: ChannelID = Union[str, int]
MEAS_POOL = ['m', 'n', 'o', 'w']
POW2 = [F(1, 4), F(1, 2), F(1), F(2)]
DECIMALS = [F(1, 10), F(3, 10), F(7, 10), F(12, 10), F(235, 100), F(5, 100), F(31, 10), F(2), F(17, 100), F(1)]


def _q():
    import qupulse.pulses as qp
    return qp


# ------------------------------------------------------------------------------------------------
# numbers / expressions -> S-expressions
# ------------------------------------------------------------------------------------------------

def num_frac(x) -> F:
    """The rational a number stands for: ints exactly, floats by their shortest decimal representation
    (equal to the binary value for the dyadic numbers used on the exact streams; this is also what
    `TimeType.from_float` makes of a duration), TimeType exactly."""
    import numpy
    if isinstance(x, bool):
        return F(int(x))
    if isinstance(x, (int, numpy.integer)):
        return F(int(x))
    if isinstance(x, F):
        return x
    if isinstance(x, (float, numpy.floating)):
        return F(repr(float(x)))
    if hasattr(x, 'numerator') and hasattr(x, 'denominator'):
        return F(int(x.numerator), int(x.denominator))
    return F(repr(float(x)))


def exact_frac(x) -> F:
    """binary-exact value of a sampled float / TimeType"""
    import numpy
    if isinstance(x, (float, numpy.floating)):
        return F(float(x))
    return num_frac(x)


_REL = {'StrictLessThan': 'lt', 'LessThan': 'le', 'StrictGreaterThan': 'gt', 'GreaterThan': 'ge',
        'Equality': 'eq', 'Unequality': 'ne'}


def sympy_sx(e) -> Any:
    """sympy tree -> nested python lists understood by `QP.PT.Expr.ofSexp`"""
    import sympy
    if isinstance(e, (int, float)):
        return num_frac(e)
    if e is sympy.true:
        return ['eq', F(0), F(0)]
    if e is sympy.false:
        return ['eq', F(0), F(1)]
    if isinstance(e, sympy.Integer):
        return F(int(e))
    if isinstance(e, sympy.Rational):
        return F(int(e.p), int(e.q))
    if isinstance(e, sympy.Float):
        return num_frac(float(e))
    if isinstance(e, sympy.Symbol):
        return ['v', str(e)]
    if isinstance(e, sympy.Add):
        return ['+'] + [sympy_sx(a) for a in e.args]
    if isinstance(e, sympy.Mul):
        return ['*'] + [sympy_sx(a) for a in e.args]
    if isinstance(e, sympy.Pow):
        b, ex = e.args
        if isinstance(ex, sympy.Integer):
            return ['^', sympy_sx(b), int(ex)]
        return ['unsupported']
    if isinstance(e, sympy.Max):
        return ['max'] + [sympy_sx(a) for a in e.args]
    if isinstance(e, sympy.Min):
        return ['min'] + [sympy_sx(a) for a in e.args]
    if isinstance(e, sympy.floor):
        return ['floor', sympy_sx(e.args[0])]
    if isinstance(e, sympy.ceiling):
        return ['ceil', sympy_sx(e.args[0])]
    if isinstance(e, sympy.Abs):
        return ['abs', sympy_sx(e.args[0])]
    n = type(e).__name__
    if n in _REL:
        return [_REL[n], sympy_sx(e.args[0]), sympy_sx(e.args[1])]
    return ['unsupported']


def expr_sx(x) -> Any:
    """ExpressionScalar | number -> S-expression data"""
    if hasattr(x, 'sympified_expression'):
        return sympy_sx(x.sympified_expression)
    if hasattr(x, 'underlying_expression'):
        return sympy_sx(x.underlying_expression)
    return num_frac(x)


def _ident(pt):
    return pt.identifier if pt.identifier is not None else 'none'


def chan_atom(c) -> str:
    """the atom a channel id travels as: qupulse's `ChannelID = Union[str, int]`; string names are themselves,
    the integer id k is the atom `#k` (distinct from every generated string name, distinct for distinct ints)"""
    if isinstance(c, str):
        return c
    if isinstance(c, bool) or not hasattr(c, '__index__'):
        raise core.MachineryError('channel id not transportable: %r' % (c,))
    return '#%d' % int(c)


def chan_of_atom(a: str):
    """inverse of `chan_atom`"""
    if isinstance(a, str) and re.fullmatch(r'#-?\d+', a):
        return int(a[1:])
    return a


_c = chan_atom


def cm_dict(case: dict) -> dict:
    """top level channel mapping of a case as a dict (replay files carry it as a list of pairs when a channel id is
    an integer: JSON object keys are strings)"""
    cm = case.get('cm') or {}
    return dict(cm) if isinstance(cm, dict) else {k: v for k, v in cm}


def _meas_sx(pt):
    return [[name, expr_sx(b), expr_sx(l)] for name, b, l in pt.measurement_declarations]


def _cons_sx(pt):
    return [sympy_sx(c.sympified_expression) for c in pt.parameter_constraints]


def _interp(i) -> str:
    return str(i)


def to_sx(pt) -> Any:
    """real template object -> S-expression data of `QP.PT.PT.ofSexp`"""
    qp = _q()
    from qupulse.pulses.arithmetic_pulse_template import ArithmeticPulseTemplate, ArithmeticAtomicPulseTemplate
    from qupulse.pulses.multi_channel_pulse_template import ParallelChannelPulseTemplate
    from qupulse.pulses.time_reversal_pulse_template import TimeReversalPulseTemplate
    from qupulse.pulses.constant_pulse_template import ConstantPulseTemplate
    from qupulse.pulses.pulse_template import PulseTemplate
    t = type(pt)
    if t is ConstantPulseTemplate:
        return ['const', _ident(pt), expr_sx(pt._duration),
                [[_c(ch), expr_sx(v)] for ch, v in pt._amplitude_dict.items()], _meas_sx(pt)]
    if t is qp.TablePT:
        return ['table', _ident(pt),
                [[_c(ch), [[expr_sx(e.t), expr_sx(e.v), _interp(e.interp)] for e in es]] for ch, es in pt.entries.items()],
                _meas_sx(pt), _cons_sx(pt)]
    if t is qp.PointPT:
        entries = []
        for e in pt.point_pulse_entries:
            if hasattr(e.v, 'sympified_expression'):
                entries.append([expr_sx(e.t), [expr_sx(e.v)], True, _interp(e.interp)])
            else:
                items = list(e.v.underlying_expression.flat)
                entries.append([expr_sx(e.t), [sympy_sx(i) for i in items], False, _interp(e.interp)])
        return ['point', _ident(pt), [_c(ch) for ch in pt._channels], entries, _meas_sx(pt), _cons_sx(pt)]
    if t is qp.FunctionPT:
        (ch,) = pt.defined_channels
        return ['func', _ident(pt), _c(ch), expr_sx(pt.duration), expr_sx(pt.expression), _meas_sx(pt), _cons_sx(pt)]
    if t is qp.SequencePT:
        return ['seq', _ident(pt), [to_sx(s) for s in pt.subtemplates], _meas_sx(pt), _cons_sx(pt)]
    if t is qp.RepetitionPT:
        return ['rep', _ident(pt), to_sx(pt.body), expr_sx(pt.repetition_count), _meas_sx(pt), _cons_sx(pt)]
    if t is qp.ForLoopPT:
        r = pt.loop_range
        return ['for', _ident(pt), to_sx(pt.body), pt.loop_index, expr_sx(r.start), expr_sx(r.stop), expr_sx(r.step),
                _meas_sx(pt), _cons_sx(pt)]
    if t is qp.MappingPT:
        return ['map', _ident(pt), to_sx(pt.template),
                [[k, expr_sx(v)] for k, v in pt.parameter_mapping.items()],
                [[k, v] for k, v in pt.measurement_mapping.items()],
                [[_c(k), 'none' if v is None else _c(v)] for k, v in pt.channel_mapping.items()],
                _cons_sx(pt)]
    if t is ParallelChannelPulseTemplate:
        return ['par', _ident(pt), to_sx(pt.template), [[_c(ch), expr_sx(v)] for ch, v in pt.overwritten_channels.items()]]
    if t is qp.AtomicMultiChannelPT:
        return ['amulti', _ident(pt), [to_sx(s) for s in pt.subtemplates],
                'none' if pt._duration is None else expr_sx(pt._duration), _meas_sx(pt), _cons_sx(pt)]
    if t is ArithmeticPulseTemplate:
        pt_is_lhs = isinstance(pt.lhs, PulseTemplate)
        sc = pt._scalar
        scs = ['d', [[_c(ch), expr_sx(v)] for ch, v in sc.items()]] if isinstance(sc, dict) else ['u', expr_sx(sc)]
        return ['arith', _ident(pt), to_sx(pt._pulse_template), pt._arithmetic_operator, scs, pt_is_lhs]
    if t is ArithmeticAtomicPulseTemplate:
        return ['aarith', _ident(pt), to_sx(pt.lhs), pt.arithmetic_operator, to_sx(pt.rhs), _meas_sx(pt)]
    if t is TimeReversalPulseTemplate:
        return ['rev', _ident(pt), to_sx(pt._inner)]
    raise core.MachineryError('cannot serialise template of type %s' % t.__name__)


# ------------------------------------------------------------------------------------------------
# spec trees -> real objects
# ------------------------------------------------------------------------------------------------

_INTERN: Optional[dict] = None


def _e(x):
    """time expression of a spec tree; while `build_shared` is active, equal strings become ONE ExpressionScalar
    object (a table entry time / function duration and a measurement window then share their evaluation caches)"""
    if _INTERN is None or not isinstance(x, str):
        return x
    if x not in _INTERN:
        from qupulse.expressions import ExpressionScalar
        _INTERN[x] = ExpressionScalar(x)
    return _INTERN[x]


def build_shared(spec: dict):
    """like `build`, with equal time-expression strings interned to one expression object"""
    global _INTERN
    _INTERN = {}
    try:
        return build(spec)
    finally:
        _INTERN = None


_REUSE: Optional[dict] = None


def _caller_dict(kind: str, body, content: dict) -> dict:
    """the dict object handed to a MappingPT constructor.  Normally a fresh literal.  While `build_reusing_dicts` is
    active it is a *caller-owned* dict that is re-used the way user code does when it builds several renamed copies
    in a loop (`mapping['m'] = 'shot_%d' % i; MappingPT(body, measurement_mapping=mapping)`): one dict object per
    (kind of mapping, mapped names, names the body declares), its entries overwritten before every construction."""
    if _REUSE is None:
        return dict(content)
    declared = {'pm': lambda: body.parameter_names, 'mm': lambda: body.measurement_names,
                'cm': lambda: body.defined_channels}[kind]()
    key = (kind, frozenset(content), frozenset(declared))
    d = _REUSE.setdefault(key, {})
    d.update(content)
    return d


def build_reusing_dicts(spec: dict):
    """like `build` (on a spec tree without attached objects), with the parameter / measurement / channel mapping
    dicts of the MappingPTs being caller-owned objects that are re-used for later constructions and overwritten
    after the last one (the caller goes on using its dict).  A template is immutable: the result must behave like
    the template `build` makes from fresh literals."""
    global _REUSE
    _REUSE = {}
    try:
        pt = build(strip(spec))
        for (kind, _keys, _declared), d in _REUSE.items():
            for i, k in enumerate(list(d)):
                d[k] = {'pm': '0', 'mm': 'zz%d' % i, 'cm': 'Q%d' % i}[kind]
        return pt
    finally:
        _REUSE = None


def _kw(spec, *names):
    out = {}
    for n in names:
        v = spec.get(n)
        if v:
            out[{'meas': 'measurements', 'cons': 'parameter_constraints', 'id': 'identifier'}[n]] = \
                [(m[0], _e(m[1]), _e(m[2])) for m in v] if n == 'meas' else v
    return out


def build(spec: dict):
    """spec tree -> real qupulse template (constructor errors propagate); nodes that carry an already built
    object under '_pt' (the generator attaches them bottom-up) are not rebuilt"""
    if '_pt' in spec:
        return spec['_pt']
    qp = _q()
    from qupulse.pulses.arithmetic_pulse_template import ArithmeticPulseTemplate, ArithmeticAtomicPulseTemplate
    from qupulse.pulses.multi_channel_pulse_template import ParallelChannelPulseTemplate
    k = spec['k']
    if k == 'const':
        return qp.ConstantPT(spec['dur'], dict(spec['amps']), **_kw(spec, 'id', 'meas'))
    if k == 'table':
        return qp.TablePT({ch: [(_e(e[0]),) + tuple(e[1:]) for e in es] for ch, es in spec['entries']},
                          **_kw(spec, 'id', 'meas', 'cons'))
    if k == 'point':
        return qp.PointPT([tuple(e) for e in spec['entries']], list(spec['chans']), **_kw(spec, 'id', 'meas', 'cons'))
    if k == 'func':
        return qp.FunctionPT(spec['expr'], _e(spec['dur']), spec['ch'], **_kw(spec, 'id', 'meas', 'cons'))
    if k == 'seq':
        return qp.SequencePT(*[build(s) for s in spec['subs']], **_kw(spec, 'id', 'meas', 'cons'))
    if k == 'rep':
        return qp.RepetitionPT(build(spec['body']), spec['count'], **_kw(spec, 'id', 'meas', 'cons'))
    if k == 'for':
        return qp.ForLoopPT(build(spec['body']), spec['idx'], tuple(spec['range']), **_kw(spec, 'id', 'meas', 'cons'))
    if k == 'map':
        kw = _kw(spec, 'id', 'cons')
        body = build(spec['body'])
        if spec.get('pm') is not None:
            kw['parameter_mapping'] = _caller_dict('pm', body, dict(spec['pm']))
        if spec.get('mm') is not None:
            kw['measurement_mapping'] = _caller_dict('mm', body, dict(spec['mm']))
        if spec.get('cm') is not None:
            kw['channel_mapping'] = _caller_dict('cm', body, {a: b for a, b in spec['cm']})
        return qp.MappingPT(body, **kw)
    if k == 'par':
        return ParallelChannelPulseTemplate(build(spec['body']), dict(spec['over']), **_kw(spec, 'id'))
    if k == 'amulti':
        kw = _kw(spec, 'id', 'meas', 'cons')
        if spec.get('dur') is not None:
            kw['duration'] = spec['dur']
        return qp.AtomicMultiChannelPT(*[build(s) for s in spec['subs']], **kw)
    if k == 'arith':
        sc = spec['scalar']
        sc = dict(sc) if isinstance(sc, list) else sc
        body = build(spec['body'])
        if spec['pt_lhs']:
            return ArithmeticPulseTemplate(body, spec['op'], sc, **_kw(spec, 'id'))
        return ArithmeticPulseTemplate(sc, spec['op'], body, **_kw(spec, 'id'))
    if k == 'aarith':
        return ArithmeticAtomicPulseTemplate(build(spec['lhs']), spec['op'], build(spec['rhs']), **_kw(spec, 'id', 'meas'))
    if k == 'rev':
        return qp.TimeReversalPT(build(spec['body']), **_kw(spec, 'id'))
    raise core.MachineryError('unknown spec kind %r' % k)


def children(spec: dict) -> List[dict]:
    k = spec['k']
    if k in ('seq', 'amulti'):
        return list(spec['subs'])
    if k == 'aarith':
        return [spec['lhs'], spec['rhs']]
    if 'body' in spec:
        return [spec['body']]
    return []


def spec_nodes(spec: dict):
    yield spec
    for c in children(spec):
        yield from spec_nodes(c)


def spec_depth(spec: dict) -> int:
    return 1 + max([spec_depth(c) for c in children(spec)], default=0)


def spec_kinds(spec: dict) -> List[str]:
    return [n['k'] for n in spec_nodes(spec)]


# ------------------------------------------------------------------------------------------------
# random generation
# ------------------------------------------------------------------------------------------------

def fstr(x: F) -> str:
    """a dyadic/decimal rational as a python/sympy literal that parses to exactly that float"""
    if x.denominator == 1:
        return str(x.numerator)
    return repr(x.numerator / x.denominator)


class Env:
    """Parameters visible at a point of the tree: name -> ('int'|'time'|'volt', value or value list)."""

    def __init__(self, ints, times, volts, idx=None, wins=None):
        self.ints = dict(ints)       # name -> int value (>= 0)
        self.times = dict(times)     # name -> power of two Fraction (> 0)
        self.volts = dict(volts)     # name -> dyadic Fraction
        self.idx = dict(idx or {})   # loop index name -> list of int values
        self.wins = dict(wins or {})  # name -> dyadic Fraction >= 0, only used in measurement windows

    def with_idx(self, name, values):
        e = Env(self.ints, self.times, self.volts, self.idx, self.wins)
        e.idx[name] = list(values)
        return e


class Gen:
    def __init__(self, rng, max_depth=4, stream='dyadic', avoid_pf11=0.9, measure_p=0.45, drop_p=0.3, zero_p=0.0,
                 int_chan_p=0.0, plain_t_p=0.0, nest_wrap_p=0.0, typed_p=0.0, reuse_p=0.0, t_param_p=0.0, remap_idx_p=0.0, self_map_p=0.0, single_p=0.0):
        # the last four switch on additional shapes (all off by default, the default stream is unchanged):
        #   int_chan_p   probability that a case uses integer channel ids 0, 1, ... (and renamings 'A' <-> 0)
        #   plain_t_p    probability that a FunctionPT's expression is the time variable itself
        #   nest_wrap_p  probability that a sub-template of an atomic composite is a scalar ArithmeticPT around another
        #                scalar ArithmeticPT / a MappingPT (`pt*a + b`, `1 - pt/2`, `2*MappingPT(pt, ...)`)
        #   typed_p      probability that a case hands its parameter values over as numpy / TimeType scalars
        #   reuse_p      probability that a case constructs its MappingPTs from caller-owned dicts that are re-used and
        #                overwritten afterwards (`build_reusing_dicts`)
        self.reuse_p = reuse_p
        #   t_param_p    probability that a case whose only `t`-sensitive nodes are FunctionPTs gets a scope entry
        #                called `t` (`scope_with_t`): an ordinary parameter / loop index renamed to `t`, or an extra value
        self.t_param_p = t_param_p
        #   remap_idx_p  probability that a MappingPT below a ForLoopPT re-defines the loop's index name in terms of the
        #                index itself (`{'i': 'i + 2'}`): everything below, across repetition / sequence levels, sees the
        #                mapped value
        self.remap_idx_p = remap_idx_p
        #   self_map_p   probability that a MappingPT re-defines a time / count parameter by an expression whose only
        #                variable is that parameter itself (`d0 -> d0/2`, `n1 -> n1 + 1`)
        #   single_p     probability that a case is instantiated with a `to_single_waveform` set (identifiers of
        #                composite nodes; a node gets an identifier for that purpose if none has one)
        self.self_map_p = self_map_p
        self.single_p = single_p
        self.int_chan_p = int_chan_p
        self.plain_t_p = plain_t_p
        self.nest_wrap_p = nest_wrap_p
        self.typed_p = typed_p
        self.int_mode = False
        self.rng = rng
        self.max_depth = max_depth
        self.stream = stream
        self.avoid_pf11 = avoid_pf11
        self.measure_p = measure_p
        self.drop_p = drop_p
        self.zero_p = zero_p      # extra probability of a zero repetition count / an empty iteration range
        self.counter = 0

    # -- parameters --------------------------------------------------------------------------------
    def params(self) -> Tuple[Env, Dict[str, Any]]:
        r = self.rng
        ints = {'n%d' % i: r.choice([0, 1, 1, 2, 2, 3]) for i in range(3)}
        times = {'d%d' % i: r.choice(DECIMALS if self.stream == 'decimal' else POW2) for i in range(3)}
        volts = {'v%d' % i: F(r.randrange(-24, 25), 8) for i in range(3)}
        values: Dict[str, Any] = {}
        for k, v in ints.items():
            values[k] = int(v)
        for k, v in itertools.chain(times.items(), volts.items()):
            values[k] = float(v) if (v.denominator != 1 or r.random() < 0.5) else int(v)
        # window parameters: only measurement declarations mention them, so mappings may redefine them freely
        # (in particular in terms of the outer parameter of the same name)
        wins = {}
        if self.stream != 'decimal':
            wins = {'w%d' % i: F(r.randrange(0, 9), 8) for i in range(2)}
            for k, v in wins.items():
                values[k] = float(v)
        return Env(ints, times, volts, None, wins), values

    def fresh(self, prefix):
        self.counter += 1
        return '%s%d' % (prefix, self.counter)

    # -- expressions: (string, value) --------------------------------------------------------------
    def volt(self, env: Env, force_idx: Optional[str] = None) -> Tuple[str, Optional[F]]:
        r = self.rng
        if force_idx is not None:
            base, bv = self.volt(env)
            c = r.choice([F(1, 8), F(1, 4), F(-1, 2), F(1)])
            return '%s + %s*%s' % (base, fstr(c), force_idx), None
        k = r.random()
        names = list(env.volts)
        if k < 0.3 or not names:
            v = F(r.randrange(-24, 25), 8)
            return fstr(v), v
        a = r.choice(names)
        if k < 0.55:
            return a, env.volts[a]
        if k < 0.7:
            b = r.choice(names)
            return '%s + %s' % (a, b), env.volts[a] + env.volts[b]
        if k < 0.8:
            return '%s - %s' % (a, r.choice(names)), None
        if k < 0.88:
            c = r.choice([F(1, 2), F(2), F(-1), F(1, 4)])
            return '%s*%s' % (fstr(c), a), env.volts[a] * c
        if k < 0.94 and env.idx:
            i = r.choice(list(env.idx))
            return '%s + %s/4' % (a, i), None
        if k < 0.97:
            return 'Max(%s, %s)' % (a, r.choice(names)), None
        return '%s/2' % a, env.volts[a] / 2

    def p2time(self, env: Env) -> Tuple[str, F]:
        """a power-of-two valued positive time (segment lengths, durations of ramps)"""
        r = self.rng
        k = r.random()
        names = list(env.times)
        if self.stream == 'decimal':
            # durations are *given* as decimals (literal or parameter), never computed in float arithmetic
            if k < 0.5 or not names:
                v = r.choice(DECIMALS)
                return fstr(v), v
            a = r.choice(names)
            return a, env.times[a]
        if k < 0.45 or not names:
            v = r.choice(POW2)
            return fstr(v), v
        a = r.choice(names)
        if k < 0.8:
            return a, env.times[a]
        if k < 0.9:
            return '2*%s' % a, env.times[a] * 2
        return '%s/2' % a, env.times[a] / 2

    def time(self, env: Env) -> Tuple[str, F]:
        """a positive dyadic time"""
        r = self.rng
        s, v = self.p2time(env)
        k = r.random()
        if k < 0.6 or self.stream == 'decimal':
            return s, v
        if k < 0.8:
            s2, v2 = self.p2time(env)
            return '%s + %s' % (s, s2), v + v2
        if k < 0.9:
            c = r.choice([F(3, 8), F(5, 4), F(3)])
            return '%s + %s' % (s, fstr(c)), v + c
        nonneg = [i for i, vals in env.idx.items() if min(vals, default=0) >= 0]
        if nonneg:
            i = r.choice(nonneg)
            return '%s*(%s + 1)' % (s, i), None
        return s, v

    def small_time(self, env: Env, bound: Optional[F], literal=False) -> Tuple[str, Optional[F]]:
        """window begin / length: non-negative dyadic, preferably within the node duration `bound`"""
        r = self.rng
        if literal:
            v = F(r.randrange(0, int((bound if bound is not None and bound > 0 else 1) * 8) + 1), 8)
            return fstr(v), v
        wn = list(env.wins)
        if wn and r.random() < 0.3:
            a = r.choice(wn)
            k = r.random()
            if k < 0.6:
                return a, env.wins[a]
            if k < 0.8:
                b = r.choice(wn)
                return '%s + %s' % (a, b), env.wins[a] + env.wins[b]
            return '%s/2' % a, env.wins[a] / 2
        if bound is not None and bound > 0 and r.random() < 0.8:
            v = F(r.randrange(0, int(bound * 8) + 1), 8)
            return fstr(v), v
        names = list(env.times)
        if names and r.random() < 0.5:
            a = r.choice(names)
            return '%s/4' % a, env.times[a] / 4
        v = F(r.randrange(0, 9), 8)
        return fstr(v), v

    def count(self, env: Env) -> Tuple[str, Optional[int]]:
        r = self.rng
        if r.random() < self.zero_p:
            zeros = [n for n, v in env.ints.items() if v == 0]
            return (r.choice(zeros), 0) if zeros and r.random() < 0.5 else ('0', 0)
        k = r.random()
        names = list(env.ints)
        if k < 0.3 or not names:
            v = r.choice([0, 1, 2, 2, 3])
            return str(v), v
        a = r.choice(names)
        if k < 0.6:
            return a, env.ints[a]
        if k < 0.75:
            return '%s + 1' % a, env.ints[a] + 1
        if k < 0.85:
            b = r.choice(names)
            return '%s*%s' % (a, b), env.ints[a] * env.ints[b]
        nonneg = [i for i, vals in env.idx.items() if min(vals, default=0) >= 0]
        if k < 0.95 and nonneg:
            # (a negative count is silently instantiated as zero repetitions while the template's duration
            #  expression count*body becomes negative: counts are kept non-negative, see notes/C04.md)
            return r.choice(nonneg), None
        return '2*%s' % a, 2 * env.ints[a]

    def loop_range(self, env: Env) -> Tuple[Tuple[str, str, str], List[int]]:
        r = self.rng
        if r.random() < self.zero_p:
            a, b, s = r.choice([(0, 0, 1), (3, 1, 1), (0, 2, -1), (2, 2, -1)])
            return (str(a), str(b), str(s)), []
        names = list(env.ints)
        k = r.random()
        if k < 0.45 or not names:
            a, b, s = r.choice([(0, 2, 1), (0, 3, 1), (1, 4, 2), (0, 5, 2), (5, 0, -2), (3, 0, -1), (0, 0, 1), (3, 1, 1),
                                (0, 1, 1), (2, 3, 5), (4, -1, -3), (-2, 2, 2), (0, 4, 3), (1, -3, -2)])
            return (str(a), str(b), str(s)), list(range(a, b, s))
        n = r.choice(names)
        v = env.ints[n]
        if k < 0.65:
            return ('0', n, '1'), list(range(0, v, 1))
        if k < 0.8:
            return ('0', '%s + 2' % n, '2'), list(range(0, v + 2, 2))
        if k < 0.9:
            return (n, '-1', '-1'), list(range(v, -1, -1))
        m = r.choice(names)
        return (n, '2*%s + 1' % m, '1'), list(range(v, 2 * env.ints[m] + 1, 1))

    def measurements(self, env: Env, dur: Optional[F], p=None, literal=False) -> List[list]:
        r = self.rng
        out = []
        p = self.measure_p if p is None else p
        while r.random() < p and len(out) < 2:
            name = r.choice(MEAS_POOL)
            b, bv = self.small_time(env, dur, literal)
            bound = None if (dur is None or bv is None) else max(dur - bv, F(0))
            l, _ = self.small_time(env, bound, literal)
            out.append([name, b, l])
        return out

    def constraints(self, env: Env) -> List[str]:
        r = self.rng
        out = []
        if r.random() < 0.15:
            ns = list(env.ints)
            ts = list(env.times)
            choice = r.random()
            if choice < 0.4 and ts:
                out.append('%s > 0' % r.choice(ts))
            elif choice < 0.7 and len(ns) >= 2:
                a, b = r.sample(ns, 2)
                out.append('%s <= %s + 5' % (a, b))
            elif ts and ns:
                out.append('%s + %s >= 0' % (r.choice(ts), r.choice(ns)))
        return out

    def maybe_id(self, spec):
        if self.rng.random() < 0.12:
            spec['id'] = self.fresh('id')
        return self.attach(spec)

    @staticmethod
    def attach(spec):
        """build the real object of this node from the already built children (kept under '_pt')"""
        spec['_pt'] = build(spec)
        return spec

    # -- atoms ------------------------------------------------------------------------------------------
    def table_entries(self, env, dur_expr: Optional[Tuple[str, F]], force_idx=None):
        """entries of one channel; if `dur_expr` is given the last time is exactly that (a power of two)"""
        r = self.rng
        entries = []
        if dur_expr is not None:
            ds, dv = dur_expr
            pattern = r.choice(['full', 'half', 'quarters'])
            if pattern == 'full':
                times = [('0', F(0)), (ds, dv)]
            elif pattern == 'half':
                times = [('0', F(0)), ('(%s)/2' % ds, dv / 2), (ds, dv)]
            else:
                times = [('0', F(0)), ('(%s)/4' % ds, dv / 4), ('(%s)/2' % ds, dv / 2), (ds, dv)]
            if r.random() < 0.3:
                times = times[1:]     # starts later: (0, v0) is inserted by the template
            if len(times) == 1:
                times = [('0', F(0))] + times
        elif self.stream == 'decimal':
            n = r.choice([2, 2, 3, 4])
            vals = sorted(r.sample([F(k, 20) for k in range(1, 80)], n))
            if r.random() < 0.7:
                vals[0] = F(0)
            times = [(fstr(v), v) for v in vals]
        else:
            n = r.choice([2, 2, 3, 3, 4, 5])
            t_s, t_v = ('0', F(0)) if r.random() < 0.75 else self.p2time(env)
            times = [(t_s, t_v)]
            for i in range(n - 1):
                if r.random() < 0.12 and 0 < i < n - 2:
                    times.append(times[-1])       # zero-length segment in the middle
                else:
                    ls, lv = self.p2time(env)
                    times.append(('%s + %s' % (times[-1][0], ls) if times[-1][0] != '0' else ls, times[-1][1] + lv))
        for j, (ts, tv) in enumerate(times):
            vs, _ = self.volt(env, force_idx if j == len(times) - 1 else None)
            interp = r.choice(['hold', 'hold', 'linear', 'linear', 'jump'])
            entries.append([ts, vs, interp])
        if r.random() < 0.15 and len(entries) >= 3:
            # a plateau: consecutive equal voltages exercise the entry de-duplication
            k = r.randrange(1, len(entries) - 1)
            entries[k][1] = entries[k - 1][1]
            if r.random() < 0.5:
                entries[k + 1][1] = entries[k][1]
        return entries, times[-1][1]

    def atom(self, chans: List[str], env: Env, dur: Optional[Tuple[str, F]] = None, force_idx=None,
             allow_multi=True, depth=0) -> dict:
        r = self.rng
        kinds = ['const', 'table', 'point']
        if len(chans) == 1:
            kinds += ['func', 'func']
        if allow_multi and depth < 2:
            if len(chans) >= 2:
                kinds += ['amulti', 'amulti']
            kinds += ['aarith']
        k = r.choice(kinds)
        if k == 'const':
            ds, dv = dur if dur is not None else self.time(env)
            amps = [[c, self.volt(env, force_idx if i == 0 else None)[0]] for i, c in enumerate(chans)]
            spec = {'k': 'const', 'dur': ds, 'amps': amps, 'meas': self.measurements(env, dv)}
        elif k == 'table':
            entries = []
            dvs = []
            common = dur
            if common is None and r.random() < 0.5:
                common = self.p2time(env)
            for i, c in enumerate(chans):
                es, dv = self.table_entries(env, common, force_idx if i == 0 else None)
                entries.append([c, es])
                dvs.append(dv)
            spec = {'k': 'table', 'entries': entries, 'meas': self.measurements(env, max(dvs)),
                    'cons': self.constraints(env)}
        elif k == 'point':
            es, dv = self.table_entries(env, dur, None)
            entries = []
            for j, (ts, vs, interp) in enumerate(es):
                if r.random() < 0.5 and not (force_idx and j == len(es) - 1):
                    entries.append([ts, vs, interp])
                else:
                    vec = [self.volt(env, force_idx if (j == len(es) - 1 and i == 0) else None)[0]
                           for i in range(len(chans))]
                    entries.append([ts, vec, interp])
            spec = {'k': 'point', 'chans': list(chans), 'entries': entries, 'meas': self.measurements(env, dv),
                    'cons': self.constraints(env)}
        elif k == 'func':
            ds, dv = dur if dur is not None else self.time(env)
            a, _ = self.volt(env, force_idx)
            shape = r.random()
            if shape < 0.6:
                b, _ = self.volt(env)
                expr = '%s + (%s)*t' % (a, b)
            elif shape < 0.85:
                expr = '%s + t/2' % a
            else:
                expr = '(%s)*(t + 1)' % a
            if force_idx is None and self.plain_t_p and r.random() < self.plain_t_p:
                expr = 't'          # evaluates to the sample time array itself
            spec = {'k': 'func', 'ch': chans[0], 'dur': ds, 'expr': expr, 'meas': self.measurements(env, dv),
                    'cons': self.constraints(env)}
        elif k == 'amulti':
            common = dur if dur is not None else self.p2time(env)
            cut = r.randrange(1, len(chans))
            groups = [chans[:cut], chans[cut:]]
            subs = []
            for gi, g in enumerate(groups):
                sub = self.atom(g, env, common, force_idx if gi == 0 else None, allow_multi=True, depth=depth + 1)
                if r.random() < 0.25:
                    sub = self.wrap_atomic(sub, g, env)
                if self.nest_wrap_p and r.random() < self.nest_wrap_p:
                    sub = self.wrap_nested(sub, g, env)
                subs.append(sub)
            spec = {'k': 'amulti', 'subs': subs, 'meas': self.measurements(env, common[1]),
                    'cons': self.constraints(env)}
            if r.random() < 0.3:
                spec['dur'] = common[0]
        else:  # aarith
            common = dur if dur is not None else self.p2time(env)
            if len(chans) == 1 or r.random() < 0.5:
                lc, rc = list(chans), list(chans)
            else:
                cut = r.randrange(1, len(chans))
                lc = chans[:cut] + ([chans[-1]] if r.random() < 0.5 else [])
                rc = chans[cut:]
                lc = list(dict.fromkeys(lc))
            lhs = self.atom(lc, env, common, force_idx, allow_multi=False, depth=depth + 1)
            rhs = self.atom(rc, env, common, None, allow_multi=False, depth=depth + 1)
            if r.random() < 0.3:
                lhs = self.wrap_atomic(lhs, lc, env, mapping_only=True)
            if r.random() < 0.3:
                rhs = self.wrap_atomic(rhs, rc, env, mapping_only=True)
            if self.nest_wrap_p and r.random() < self.nest_wrap_p:
                if r.random() < 0.5:
                    lhs = self.wrap_nested(lhs, lc, env)
                else:
                    rhs = self.wrap_nested(rhs, rc, env)
            # PF-13 (C03): ArithmeticAtomicPT.parameter_names omits its own measurement parameters, so its
            # declarations use literals only here
            spec = {'k': 'aarith', 'lhs': lhs, 'op': r.choice(['+', '-']), 'rhs': rhs,
                    'meas': self.measurements(env, common[1], literal=True)}
        return self.maybe_id(spec)

    def window_remap(self, env: Env, names) -> Dict[str, str]:
        """re-definitions of window parameters, mostly in terms of the *same-named* outer parameter"""
        r = self.rng
        used = [w for w in env.wins if w in names]
        pm: Dict[str, str] = {}
        if not used:
            return pm
        others = list(env.wins)
        k = r.random()
        if k < 0.25 and len(used) >= 2:
            a, b = used[0], used[1]
            pm[a], pm[b] = b, a                                   # a swap
        else:
            for w in used:
                if r.random() < 0.7:
                    o = r.choice(others)
                    pm[w] = r.choice(['%s + %s' % (w, o), '%s/2' % w, '%s + 0.25' % w, '2*%s' % w, o])
        return pm

    def wrap_atomic(self, sub: dict, chans, env, mapping_only=False) -> dict:
        """a wrapper that keeps atomicity and works inside AtomicMultiChannelPT / ArithmeticAtomicPT"""
        r = self.rng
        if not mapping_only and r.random() < 0.4:
            return {'k': 'arith', 'body': sub, 'op': r.choice(['+', '-', '*']), 'scalar': self.volt(env)[0],
                    'pt_lhs': r.random() < 0.5}
        pt = sub.get('_pt') or build(sub)
        pm = self.window_remap(env, pt.parameter_names)
        mm = [[n, r.choice(MEAS_POOL + ['x', 'y'])] for n in sorted(pt.measurement_names) if r.random() < 0.4]
        return {'k': 'map', 'body': sub, 'pm': [[k, v] for k, v in pm.items()] if pm else None, 'mm': mm or None,
                'cm': None}

    def wrap_nested(self, sub: dict, chans, env) -> dict:
        """a scalar ArithmeticPT whose pulse operand is itself a scalar ArithmeticPT or a MappingPT (atomic as long
        as `sub` is): `pt*a + b`, `1 - pt/2`, `2*MappingPT(pt, ...)`"""
        r = self.rng
        if r.random() < 0.5:
            op = r.choice(['*', '/', '+', '-'])
            inner = {'k': 'arith', 'body': sub, 'op': op,
                     'scalar': fstr(r.choice([F(1, 2), F(2), F(-1), F(4)])) if op in '*/' else self.volt(env)[0],
                     'pt_lhs': True if op == '/' else r.random() < 0.5}
        else:
            inner = self.wrap_atomic(sub, chans, env, mapping_only=True)
        return {'k': 'arith', 'body': inner, 'op': r.choice(['+', '-', '*']), 'scalar': self.volt(env)[0],
                'pt_lhs': r.random() < 0.5}

    def chan_pool(self) -> list:
        """names a MappingPT may give the channels of its body"""
        if self.int_mode and self.rng.random() < 0.5:
            return list(INT_CHAN_POOL)
        return list(CHAN_POOL)

    # -- composite -------------------------------------------------------------------------------------
    def template(self, depth: int, chans: List[str], env: Env, force_idx=None, under_trafo=False) -> dict:
        r = self.rng
        if depth <= 1 or r.random() < 0.12:
            return self.atom(chans, env, None, force_idx)
        kinds = ['seq', 'seq', 'rep', 'for', 'for', 'map', 'map', 'arith', 'rev']
        if len(chans) >= 2 or r.random() < 0.5:
            if not (under_trafo and r.random() < self.avoid_pf11):
                kinds += ['par', 'par']
        k = r.choice(kinds)
        d = depth - 1
        if k == 'seq':
            n = r.choice([1, 2, 2, 3])
            fi = r.randrange(n)
            subs = [self.template(d if i == 0 else r.randrange(1, d + 1), chans, env,
                                  force_idx if i == fi else None, under_trafo) for i in range(n)]
            spec = {'k': 'seq', 'subs': subs, 'meas': self.measurements(env, None), 'cons': self.constraints(env)}
        elif k == 'rep':
            cs, _ = self.count(env)
            spec = {'k': 'rep', 'body': self.template(d, chans, env, force_idx, under_trafo), 'count': cs,
                    'meas': self.measurements(env, None), 'cons': self.constraints(env)}
        elif k == 'for':
            idx = self.fresh('i')
            rng, values = self.loop_range(env)
            body = self.template(d, chans, env.with_idx(idx, values or [0]), idx, under_trafo)
            if force_idx is not None:
                # the enclosing loop's index must be used as well
                body = {'k': 'seq', 'subs': [body, self.atom(chans, env, None, force_idx)], 'meas': [], 'cons': []}
            spec = {'k': 'for', 'body': body, 'idx': idx, 'range': list(rng), 'meas': self.measurements(env, None),
                    'cons': self.constraints(env)}
        elif k == 'map':
            spec = self.mapping(d, chans, env, force_idx, under_trafo)
        elif k == 'arith':
            op = r.choice(['+', '-', '*', '/'])
            pt_lhs = True if op == '/' else r.random() < 0.5
            if op == '/':
                scalar = fstr(r.choice([F(1, 2), F(2), F(4), F(-2), F(1, 4)]))
            elif op == '*':
                scalar = fstr(r.choice([F(1, 2), F(2), F(-1), F(3, 2), F(0), F(1, 4)])) if r.random() < 0.6 else r.choice(list(env.volts) or ['2'])
            else:
                scalar = self.volt(env)[0]
            if r.random() < 0.5:
                sub = r.sample(chans, r.randrange(1, len(chans) + 1))
                scalar = [[c, scalar if i == 0 else self.volt(env)[0] if op in '+-' else scalar] for i, c in enumerate(sub)]
            spec = {'k': 'arith', 'body': self.template(d, chans, env, force_idx, True), 'op': op, 'scalar': scalar,
                    'pt_lhs': pt_lhs}
        elif k == 'rev':
            spec = {'k': 'rev', 'body': self.template(d, chans, env, force_idx, under_trafo)}
        else:  # par
            if len(chans) >= 2:
                n_over = r.randrange(1, len(chans))
                over = r.sample(chans, n_over)
                keep = [c for c in chans if c not in over]
                if r.random() < 0.25:
                    keep = keep + [over[0]]      # an existing channel is overwritten
            else:
                over, keep = [chans[0]], [chans[0]]
            body = self.template(d, keep, env, force_idx, True)
            spec = {'k': 'par', 'body': body, 'over': [[c, self.volt(env)[0]] for c in over]}
        return self.maybe_id(spec)

    def mapping(self, d, chans, env: Env, force_idx, under_trafo) -> dict:
        r = self.rng
        # channels: inner names -> outer names (a bijection onto `chans`), extra inner channels are dropped
        pool = self.chan_pool() if self.int_mode else [c for c in CHAN_POOL]
        r.shuffle(pool)
        k = r.random()
        if k < 0.4:
            inner = list(chans)
        elif k < 0.65 and len(chans) >= 2:
            inner = list(chans)          # a permutation of the same names: mappings must not be applied twice
            while inner == list(chans):
                r.shuffle(inner)
        else:
            inner = pool[:len(chans)]
        cm = [[i, o] for i, o in zip(inner, chans)]
        if r.random() < self.drop_p:
            extra = [c for c in pool if c not in inner][:r.choice([1, 1, 2])]
            for c in extra:
                cm.append([c, None])
            inner = inner + extra
            r.shuffle(inner)
        # parameters: inner environment = fresh names bound to outer expressions of the same kind
        inner_env = Env(env.ints, env.times, env.volts, env.idx, env.wins)
        pm = {}
        style = r.random()
        remap_windows = r.random() < 0.35
        if style < 0.25:
            names = list(env.volts)
            if len(names) >= 2:
                a, b = r.sample(names, 2)          # a swap: must be simultaneous
                pm[a], pm[b] = b, a
                inner_env.volts[a], inner_env.volts[b] = env.volts[b], env.volts[a]
        elif style < 0.75:
            for _ in range(r.choice([1, 2, 3])):
                kind = r.choice(['volt', 'volt', 'time', 'int'])
                if kind == 'volt':
                    name = r.choice(list(env.volts) + [self.fresh('u')])
                    s, v = self.volt(env)
                    pm[name] = s
                    inner_env.volts[name] = v if v is not None else F(0)
                elif kind == 'time':
                    name = r.choice(list(env.times) + [self.fresh('e')])
                    s, v = self.p2time(env)
                    pm[name] = s
                    inner_env.times[name] = v
                else:
                    name = r.choice(list(env.ints) + [self.fresh('c')])
                    s, v = self.count(env)
                    if v is None:
                        continue
                    pm[name] = s
                    inner_env.ints[name] = v
        if self.self_map_p and r.random() < self.self_map_p:
            for _ in range(r.choice([1, 1, 2])):
                if r.random() < 0.7 and env.times:
                    name = r.choice(sorted(env.times))
                    form, f = r.choice([('%s/2', lambda x: x / 2), ('2*%s', lambda x: 2 * x)])
                    pm[name] = form % name
                    inner_env.times[name] = f(env.times[name])
                elif env.ints:
                    name = r.choice(sorted(env.ints))
                    form, f = r.choice([('%s + 1', lambda x: x + 1), ('2*%s', lambda x: 2 * x), ('%s + 2', lambda x: x + 2)])
                    pm[name] = form % name
                    inner_env.ints[name] = f(env.ints[name])
        if self.remap_idx_p and env.idx and r.random() < self.remap_idx_p:
            i = force_idx if (force_idx in env.idx and r.random() < 0.8) else r.choice(sorted(env.idx))
            form, f = r.choice([('%s + 1', lambda x: x + 1), ('%s + 2', lambda x: x + 2), ('2*%s', lambda x: 2 * x),
                                ('2*%s + 1', lambda x: 2 * x + 1), ('3 - %s', lambda x: 3 - x)])
            pm[i] = form % i
            inner_env = inner_env.with_idx(i, [f(x) for x in env.idx[i]])
        body = self.template(d, inner, inner_env, force_idx, under_trafo)
        # parameter / measurement mappings can only mention names the built body declares
        names = body['_pt'].parameter_names
        pm = {k: v for k, v in pm.items() if k in names}
        if remap_windows:
            pm.update(self.window_remap(env, names))
        mm = []
        if r.random() < 0.5:
            for n in sorted(body['_pt'].measurement_names):
                if r.random() < 0.6:
                    mm.append([n, r.choice(MEAS_POOL + ['x', 'y'])])
        return {'k': 'map', 'body': body, 'pm': [[k, v] for k, v in pm.items()] if pm else None, 'mm': mm or None,
                'cm': cm, 'cons': self.constraints(env)}


def strip(spec):
    """JSON-able copy of a spec tree (drops the attached real objects)"""
    if isinstance(spec, dict):
        return {k: strip(v) for k, v in spec.items() if not k.startswith('_')}
    if isinstance(spec, (list, tuple)):
        return [strip(v) for v in spec]
    return spec


def _strings(node, out: list, skip=('k', 'id', 'ch', 'op')):
    if isinstance(node, dict):
        for k, v in node.items():
            if k not in skip and not k.startswith('_'):
                _strings(v, out)
    elif isinstance(node, (list, tuple)):
        for v in node:
            _strings(v, out)
    elif isinstance(node, str):
        out.append(node)


def _rename(node, pat, skip=('k', 'id', 'ch', 'op')):
    if isinstance(node, dict):
        return {k: (v if k in skip else _rename(v, pat)) for k, v in node.items() if not k.startswith('_')}
    if isinstance(node, (list, tuple)):
        return [_rename(v, pat) for v in node]
    if isinstance(node, str):
        return pat.sub('t', node)
    return node


def with_single(rng, case: dict) -> Optional[dict]:
    """a variant of `case` that is instantiated with `to_single_waveform = {identifiers}`: one or two composite nodes
    (sequence, repetition, iteration, mapping, time reversal) are rendered into one waveform each; their windows -
    at every nesting level below - stay the declared ones"""
    spec = strip(case['spec'])
    comp = [n for n in spec_nodes(spec) if n['k'] in ('seq', 'rep', 'for', 'map', 'rev')]
    if not comp:
        return None
    chosen = rng.sample(comp, min(len(comp), rng.choice([1, 1, 2])))
    ids = []
    for i, n in enumerate(chosen):
        if not n.get('id'):
            n['id'] = 'single%d' % i
        ids.append(n['id'])
    try:
        build(spec)
    except Exception:  # noqa
        return None
    return dict(case, spec=spec, single=sorted(set(ids)))


def scope_with_t(rng, case: dict) -> Optional[dict]:
    """A variant of `case` whose scope has an entry called `t` while FunctionPTs are instantiated: one ordinary
    parameter (a wait time, a voltage, a count, a mapped name) or one loop index is *renamed* to `t` everywhere, or an
    extra parameter `t` is supplied.  `t` is the bound time variable of a FunctionPT's formula and an ordinary name
    everywhere else, so the tree plays what it denotes.  Only for trees whose only `t`-sensitive nodes are FunctionPTs:
    no scalar ArithmeticPT / ParallelChannelPT (known finding PF-14 of C03) and no FunctionPT that mentions the renamed
    name itself.  None if the tree does not qualify."""
    spec = strip(case['spec'])
    kinds = spec_kinds(spec)
    if 'func' not in kinds or 'arith' in kinds or 'par' in kinds:
        return None
    in_func: list = []
    for n in spec_nodes(spec):
        if n['k'] == 'func':
            _strings(n, in_func)
    everywhere: list = []
    _strings(spec, everywhere)

    def occurs(name, strings):
        pat = re.compile(r'(?<![A-Za-z0-9_.])%s(?![A-Za-z0-9_])' % re.escape(name))
        return any(pat.search(x) for x in strings)

    if occurs('t', [x for x in everywhere if x not in in_func]) or 't' in case['params']:
        return None
    names = set(case['params'])
    for n in spec_nodes(spec):
        if n['k'] == 'for':
            names.add(n['idx'])
        if n['k'] == 'map':
            names.update(k for k, _ in (n.get('pm') or []))
    cands = sorted(x for x in names if isinstance(x, str) and occurs(x, everywhere) and not occurs(x, in_func))
    out = dict(case)
    if cands and rng.random() < 0.75:
        name = rng.choice(cands)
        pat = re.compile(r'(?<![A-Za-z0-9_.])%s(?![A-Za-z0-9_])' % re.escape(name))
        out['spec'] = _rename(spec, pat)
        out['params'] = {('t' if k == name else k): v for k, v in case['params'].items()}
    else:
        out['spec'] = spec
        out['params'] = dict(case['params'], t=float(F(rng.randrange(1, 17), 4)))
    try:
        build(out['spec'])
    except Exception:  # noqa -- e.g. a mapping that may not mention the renamed name any more
        return None
    return out


PTYPE_TAGS = ('int', 'float', 'i64', 'f64', 'tt')


def draw_ptypes(rng, params: Dict[str, Any], time_like=lambda name: name[:1] in ('d', 'T')) -> Dict[str, str]:
    """how the parameter values are handed to qupulse: python int / float (default), numpy.int64, numpy.float64 or
    (time-like parameters only) TimeType.  The value a number stands for does not depend on its type: a float of
    either kind means its shortest decimal representation (`num_frac`)."""
    out = {}
    for k, v in params.items():
        if isinstance(v, int):
            tag = rng.choice(['int', 'i64', 'i64', 'tt' if time_like(k) else 'i64'])
        else:
            tag = rng.choice(['float', 'f64', 'f64', 'tt' if time_like(k) else 'f64'])
        if tag not in ('int', 'float'):
            out[k] = tag
    return out


def typed_params(case: dict) -> Dict[str, Any]:
    """the parameter values of a case as the objects handed to `create_program`"""
    params = dict(case['params'])
    tags = case.get('ptypes') or {}
    if tags:
        import numpy
        from qupulse.utils.types import TimeType
        for k, tag in tags.items():
            if k not in params:
                continue
            v = params[k]
            if tag == 'f64':
                params[k] = numpy.float64(v)
            elif tag == 'i64':
                params[k] = numpy.int64(v)
            elif tag == 'tt':
                f = num_frac(v)
                params[k] = TimeType.from_fraction(f.numerator, f.denominator)
            elif tag == 'float':
                params[k] = float(v)
            elif tag == 'int':
                params[k] = int(v)
            else:
                raise core.MachineryError('unknown parameter type tag %r' % tag)
    return params


def random_case(rng, max_depth=4, stream='dyadic', **kw) -> dict:
    """One well-formed case: spec tree + parameter values + top-level channel / measurement mappings."""
    g = Gen(rng, max_depth, stream, **kw)
    for _attempt in range(20):
        env, values = g.params()
        n_ch = rng.choice([1, 1, 2, 2, 3])
        chans = CHAN_POOL[:n_ch]
        g.int_mode = bool(g.int_chan_p) and rng.random() < g.int_chan_p
        if g.int_mode:
            chans = INT_CHAN_POOL[:n_ch] if rng.random() < 0.7 else CHAN_POOL[:n_ch]
        depth = rng.randrange(1, max_depth + 1) if rng.random() < 0.4 else max_depth
        try:
            spec = g.template(depth, chans, env)
            pt = build(spec)
        except Exception:       # noqa  -- an ill-formed draw (e.g. unused loop index): draw again
            continue
        # top level channel mapping: rename / drop, injective
        cm = {}
        defined = sorted(pt.defined_channels, key=chan_atom)
        if rng.random() < 0.35:
            targets = [10, 11, 12, 'X', 'Y', 'Z'] if g.int_mode else ['X', 'Y', 'Z', 'W', 'V', 'U']
            rng.shuffle(targets)
            for c, t in zip(defined, targets):
                k = rng.random()
                if k < 0.4:
                    cm[c] = t
                elif k < 0.6 and len(defined) > 1 and sum(v is None for v in cm.values()) < len(defined) - 1:
                    cm[c] = None
        mm = None
        mnames = sorted(pt.measurement_names)
        if mnames and rng.random() < 0.3:
            mm = {}
            for n in mnames:
                k = rng.random()
                mm[n] = None if k < 0.3 else (n if k < 0.7 else rng.choice(['p', 'r']))
        used = pt.parameter_names
        params = {k: v for k, v in values.items() if k in used or rng.random() < 0.2}
        case = {'spec': spec, 'params': params, 'cm': cm, 'mm': mm, 'single': []}
        if g.single_p and rng.random() < g.single_p:
            case = with_single(rng, case) or case
        if g.t_param_p and rng.random() < g.t_param_p:
            case = scope_with_t(rng, case) or case
        if g.typed_p and rng.random() < g.typed_p:
            case['ptypes'] = draw_ptypes(rng, params)
        if g.reuse_p and rng.random() < g.reuse_p:
            case['reuse'] = True
        return case
    raise core.MachineryError('generator failed to draw a well-formed template')


# ------------------------------------------------------------------------------------------------
# exhaustive small scope
# ------------------------------------------------------------------------------------------------

def _atoms():
    a = {'k': 'table', 'entries': [['A', [['0', '1', 'hold'], ['1', '1', 'hold'], ['2', '3', 'linear']]]],
         'meas': [['m', '0.5', '1']], 'cons': []}
    b = {'k': 'const', 'dur': 'd', 'amps': [['A', 'v + i/2']], 'meas': [['n', '0', 'd/2']]}
    return [a, b]


def _wrappers(x: dict) -> List[dict]:
    import copy
    c = lambda: copy.deepcopy(x)  # noqa
    return [
        {'k': 'rep', 'body': c(), 'count': '2', 'meas': [['w', '0.25', '0.5']], 'cons': []},
        {'k': 'rep', 'body': c(), 'count': 'z', 'meas': [['w', '0', '1']], 'cons': []},
        {'k': 'for', 'body': {'k': 'map', 'body': c(), 'pm': None, 'mm': None, 'cm': None} if False else c(),
         'idx': 'i', 'range': ['0', '2', '1'], 'meas': [['o', '0', '0.5']], 'cons': []},
        {'k': 'map', 'body': c(), 'pm': [['v', 'v + 1']], 'mm': [['m', 'x']], 'cm': [['A', 'A']]},
        {'k': 'arith', 'body': c(), 'op': '-', 'scalar': '0.5', 'pt_lhs': False},
        {'k': 'rev', 'body': c()},
        {'k': 'par', 'body': c(), 'over': [['B', '0.25']]},
    ]


def exhaustive_specs(max_depth=3) -> List[dict]:
    """all nestings of depth <= max_depth over two atoms (wrappers: repetition by literal and by a zero
    parameter, iteration, mapping, scalar arithmetic, reversal, parallel channel; binary: sequence)"""
    import copy
    levels: List[List[dict]] = [_atoms()]
    for _ in range(max_depth - 1):
        prev_all = [s for lvl in levels for s in lvl]
        new = []
        for x in levels[-1]:
            new.extend(_wrappers(x))
        for x in prev_all:
            for y in prev_all:
                if spec_depth(x) == len(levels) or spec_depth(y) == len(levels):
                    new.append({'k': 'seq', 'subs': [copy.deepcopy(x), copy.deepcopy(y)], 'meas': [['w', '0', '0.5']],
                                'cons': []})
        levels.append(new)
    out = []
    for lvl in levels:
        out.extend(lvl)
    return out


def exhaustive_case(spec: dict) -> Optional[dict]:
    """fill in what the enumeration leaves open; None if the nesting is not constructible"""
    import copy
    spec = copy.deepcopy(spec)
    # the const atom mentions `i`: bind it by a mapping where no loop does
    def bind(s, bound):
        k = s['k']
        if k == 'for':
            bound = True
        for key in ('body',):
            if key in s:
                s[key] = bind(s[key], bound)
        if k == 'seq':
            s['subs'] = [bind(x, bound) for x in s['subs']]
        if k == 'map' and s.get('pm') is not None:
            names = build(s['body']).parameter_names
            s['pm'] = [p for p in s['pm'] if p[0] in names] or None
            mn = build(s['body']).measurement_names
            s['mm'] = [m for m in (s.get('mm') or []) if m[0] in mn] or None
        if k == 'const' and not bound:
            return {'k': 'map', 'body': s, 'pm': [['i', '1']], 'mm': None, 'cm': None}
        return s
    try:
        spec = bind(spec, False)
        pt = build(spec)
    except Exception:  # noqa
        return None
    params = {'d': 1.0, 'v': 0.5, 'z': 0}
    return {'spec': spec, 'params': {k: v for k, v in params.items() if k in pt.parameter_names},
            'cm': {}, 'mm': None, 'single': []}


# ------------------------------------------------------------------------------------------------
# malformed stream (single faults)
# ------------------------------------------------------------------------------------------------

def malform(rng, case: dict) -> Optional[dict]:
    import copy
    c = copy.deepcopy(case)
    nodes = list(spec_nodes(c['spec']))
    kind = rng.choice(['missing', 'constraint', 'noninteger', 'negwindow', 'noninjective', 'zerostep',
                       'decreasing', 'unknown_meas'])
    c['fault'] = kind
    if kind == 'missing':
        if not c['params']:
            return None
        del c['params'][rng.choice(sorted(c['params']))]
    elif kind == 'constraint':
        cand = [n for n in nodes if 'cons' in n]
        names = sorted(c['params'])
        if not cand or not names:
            return None
        p = rng.choice(names)
        rng.choice(cand).setdefault('cons', []).append('%s > %s + 1' % (p, p) if False else '%s < %s' % (p, fstr(num_frac(c['params'][p]) - 1)))
    elif kind == 'noninteger':
        cand = [n for n in nodes if n['k'] == 'rep']
        if not cand:
            return None
        rng.choice(cand)['count'] = '1.5'
    elif kind == 'negwindow':
        cand = [n for n in nodes if 'meas' in n]
        if not cand:
            return None
        rng.choice(cand)['meas'] = [['m', '-0.5', '1']] if rng.random() < 0.5 else [['m', '0', 'q_neg']]
        c['params']['q_neg'] = -1.0
    elif kind == 'noninjective':
        pt = build(c['spec'])
        ch = sorted(pt.defined_channels)
        if len(ch) < 2:
            return None
        c['cm'] = {ch[0]: 'X', ch[1]: 'X'}
    elif kind == 'zerostep':
        cand = [n for n in nodes if n['k'] == 'for']
        if not cand:
            return None
        rng.choice(cand)['range'][2] = '0'
    elif kind == 'decreasing':
        cand = [n for n in nodes if n['k'] == 'table']
        if not cand:
            return None
        n = rng.choice(cand)
        n['entries'][0][1] = [['0', '0', 'hold'], ['t_hi', '1', 'linear'], ['t_lo', '2', 'hold']]
        c['params'].update({'t_hi': 2.0, 't_lo': 1.0})
    elif kind == 'unknown_meas':
        pt = build(c['spec'])
        names = sorted(pt.measurement_names)
        if not names:
            return None
        c['mm'] = {n: n for n in names[1:]}
        if not names[1:]:
            c['mm'] = {'zz': 'zz'}
    try:
        build(c['spec'])
    except Exception:  # noqa -- rejected at construction: not an instantiation case
        return None
    return c


# ------------------------------------------------------------------------------------------------
# observation of the real code
# ------------------------------------------------------------------------------------------------

def all_atoms_keep_channel(pt, cm: Dict[str, Optional[str]]) -> bool:
    """does every atomic leaf of the tree keep at least one channel under the channel mapping?"""
    qp = _q()
    from qupulse.pulses.multi_channel_pulse_template import ParallelChannelPulseTemplate
    from qupulse.pulses.arithmetic_pulse_template import ArithmeticPulseTemplate, ArithmeticAtomicPulseTemplate
    from qupulse.pulses.time_reversal_pulse_template import TimeReversalPulseTemplate
    t = type(pt)
    if t is qp.MappingPT:
        return all_atoms_keep_channel(pt.template, pt.get_updated_channel_mapping(cm))
    if t is qp.SequencePT or t is qp.AtomicMultiChannelPT:
        return all(all_atoms_keep_channel(s, cm) for s in pt.subtemplates)
    if t in (qp.RepetitionPT, qp.ForLoopPT):
        return all_atoms_keep_channel(pt.body, cm)
    if t is ParallelChannelPulseTemplate:
        return all_atoms_keep_channel(pt.template, cm)
    if t is ArithmeticPulseTemplate:
        return all_atoms_keep_channel(pt._pulse_template, cm)
    if t is ArithmeticAtomicPulseTemplate:
        return all_atoms_keep_channel(pt.lhs, cm) and all_atoms_keep_channel(pt.rhs, cm)
    if t is TimeReversalPulseTemplate:
        return all_atoms_keep_channel(pt._inner, cm)
    return any(cm.get(c, c) is not None for c in pt.defined_channels)


def _wf_breaks(wf, out: set, offset: F, limit: int):
    """breakpoints (absolute times) inside a waveform"""
    from qupulse.program import waveforms as W
    if len(out) > limit:
        return
    d = num_frac(wf.duration)
    if isinstance(wf, W.TableWaveform):
        for e in wf._table:
            out.add(offset + exact_frac(e.t))
    elif isinstance(wf, W.MultiChannelWaveform):
        for s in wf._sub_waveforms:
            _wf_breaks(s, out, offset, limit)
    elif isinstance(wf, W.SequenceWaveform):
        t = offset
        for s in wf._sequenced_waveforms:
            out.add(t)
            _wf_breaks(s, out, t, limit)
            t += num_frac(s.duration)
    elif isinstance(wf, W.RepetitionWaveform):
        bd = num_frac(wf._body.duration)
        for k in range(min(wf._repetition_count, 6)):
            out.add(offset + k * bd)
            _wf_breaks(wf._body, out, offset + k * bd, limit)
    elif isinstance(wf, W.ReversedWaveform):
        inner: set = set()
        _wf_breaks(wf._inner, inner, F(0), limit)
        for t in inner:
            out.add(offset + d - t)
    elif isinstance(wf, (W.TransformingWaveform, W.FunctorWaveform, W.SubsetWaveform)):
        _wf_breaks(wf._inner_waveform, out, offset, limit)
    elif isinstance(wf, W.ArithmeticWaveform):
        _wf_breaks(wf._lhs, out, offset, limit)
        _wf_breaks(wf._rhs, out, offset, limit)


def program_breaks(loop, limit=60) -> List[F]:
    """start times of played pieces and table breakpoints inside them (repetitions unrolled up to a cap)"""
    out: set = set()

    def walk(l, offset: F):
        if len(out) > limit:
            return
        body = num_frac(l.body_duration)
        for k in range(min(l.repetition_count, 4)):
            o = offset + k * body
            out.add(o)
            if l.is_leaf():
                if l.waveform is not None:
                    _wf_breaks(l.waveform, out, o, limit)
            else:
                t = o
                for c in l:
                    walk(c, t)
                    t += num_frac(c.duration)
    walk(loop, F(0))
    return sorted(out)


def make_grid(rng, loop, dur: F, cap=90) -> List[F]:
    """all piece boundaries, boundaries +- 1/16, 0, regular grids at two sample rates; strictly inside [0, dur)"""
    pts = {F(0)}
    for b in program_breaks(loop):
        for t in (b, b - F(1, 16), b + F(1, 16)):
            if 0 <= t < dur:
                pts.add(t)
    for rate in (F(1), F(4)):
        n = int(dur * rate)
        ks = range(n + 1) if n <= 24 else sorted(rng.sample(range(n + 1), 24))
        for k in ks:
            t = F(k) / rate
            if 0 <= t < dur:
                pts.add(t)
    pts = sorted(pts)
    if len(pts) > cap:
        keep = set(rng.sample(pts, cap))
        keep.add(F(0))
        pts = sorted(keep)
    return pts


def pieces_sum(loop) -> F:
    """sum over all played pieces: leaf duration x product of the enclosing repetition counts"""
    if loop.is_leaf():
        d = num_frac(loop.waveform.duration) if loop.waveform is not None else F(0)
        return d * loop.repetition_count
    return sum((pieces_sum(c) for c in loop), F(0)) * loop.repetition_count


def leaf_channel_sets(loop) -> List[frozenset]:
    if loop.is_leaf():
        return [frozenset(loop.waveform.defined_channels)] if loop.waveform is not None else []
    out = []
    for c in loop:
        out.extend(leaf_channel_sets(c))
    return out


def _leaves(loop, out: list, cap: int):
    if len(out) >= cap:
        return
    if loop.is_leaf():
        if loop.waveform is not None and not any(loop.waveform is w for w in out):
            out.append(loop.waveform)
    else:
        for c in loop:
            _leaves(c, out, cap)


def _leafwise_shared_grid(prog, max_leaves=6, max_points=16) -> Optional[dict]:
    """What a hardware driver does: every played waveform is sampled channel after channel on ONE time array.
    Sampling a channel on the shared array (after the other channels) and on a private copy of the same times must
    give the same voltages, and the shared array must come back unchanged.  Returns the first discrepancy."""
    import numpy as np
    leaves: list = []
    _leaves(prog, leaves, max_leaves)
    for li, wf in enumerate(leaves):
        chans = sorted(wf.defined_channels, key=chan_atom)
        if len(chans) < 2:
            continue
        d = float(wf.duration)
        n = min(max_points, max(2, int(d * 4)))
        shared = np.arange(n, dtype=float) * (d / n)
        pristine = shared.copy()
        for ch in chans:
            # (the shared array first: a TransformingWaveform caches by the values of the sample times)
            failed = None
            try:
                got = np.array(wf.get_sampled(ch, shared), dtype=float)
            except Exception as exc:  # noqa
                failed = core.classify_exception(exc)
            try:
                want = np.array(wf.get_sampled(ch, pristine.copy()), dtype=float)
            except Exception:  # noqa -- cannot be sampled at all: not a matter of the shared array
                break
            if failed is not None:
                return {'leaf': li, 'channel': chan_atom(ch), 'raises': failed,
                        'after': [chan_atom(c) for c in chans[:chans.index(ch)]]}
            same = np.array_equal(got, want, equal_nan=True)
            if not same or not np.array_equal(shared, pristine):
                bad = np.flatnonzero(~((got == want) | (np.isnan(got) & np.isnan(want)))) if not same \
                    else np.flatnonzero(shared != pristine)
                i = int(bad[0])
                return {'leaf': li, 'channel': chan_atom(ch), 'after': [chan_atom(c) for c in chans[:chans.index(ch)]],
                        't': F(float(pristine[i])), 'shared': None if same else str(F(float(got[i]))),
                        'private': None if same else str(F(float(want[i]))),
                        'time_now': str(F(float(shared[i]))) if shared[i] != pristine[i] else None}
    return None


def observe(case: dict, rng=None, grid: Optional[List[F]] = None, want_samples=True, want_windows=True) -> dict:
    """Run the real code on one case. Returns {'pt', 'sx', 'impl': observables, 'grid'}."""
    import numpy as np
    import random
    from qupulse.program.loop import to_waveform
    rng = rng or random.Random(0)
    pt = build_shared(case['spec']) if case.get('share') else build(case['spec'])
    # 'pt' is what the model is told about: the template as written.  With 'reuse' the template that is instantiated
    # was constructed from caller-owned mapping dicts that were re-used and overwritten afterwards.
    out: Dict[str, Any] = {'pt': pt}
    if case.get('reuse'):
        pt = build_reusing_dicts(case['spec'])
    params = typed_params(case)
    kwargs: Dict[str, Any] = {'parameters': params}
    if case.get('cm'):
        kwargs['channel_mapping'] = cm_dict(case)
    if case.get('mm') is not None:
        kwargs['measurement_mapping'] = dict(case['mm'])
    if case.get('single'):
        kwargs['to_single_waveform'] = set(case['single'])
    impl: Dict[str, Any] = {}
    # template duration (C04): evaluated numerically before the program is created, or after it ('tdur_after')
    # (with plain python numbers: the float evaluation of a symbolic duration is not made for TimeType / numpy scalars)
    def _tdur():
        try:
            td = pt.duration.evaluate_in_scope(dict(case['params']))
            return ('ok', num_frac(td), exact_frac(td))
        except Exception as exc:  # noqa
            return ('error', core.classify_exception(exc))
    if not case.get('tdur_after'):
        impl['tdur'] = _tdur()
    try:
        prog = pt.create_program(**kwargs)
        if 'tdur' not in impl:
            impl['tdur'] = _tdur()
    except Exception as exc:  # noqa
        if 'tdur' not in impl:
            impl['tdur'] = _tdur()
        impl['status'] = 'error'
        impl['error'] = core.classify_exception(exc)
        out['impl'] = impl
        out['grid'] = []
        return out
    if prog is None:
        impl['status'] = 'empty'
        out['impl'] = impl
        out['grid'] = []
        return out
    impl['status'] = 'ok'
    out['program'] = prog
    impl['dur'] = num_frac(prog.duration)
    impl['pieces'] = pieces_sum(prog)
    sets = leaf_channel_sets(prog)
    uniform = all(s == sets[0] for s in sets)
    impl['chans'] = sorted(chan_atom(c) for c in sets[0]) if uniform else 'nonuniform'
    try:
        wf = to_waveform(prog)
        impl['wfdur'] = num_frac(wf.duration)
    except Exception as exc:  # noqa
        wf = None
        impl['wfdur'] = 'error:' + core.classify_exception(exc)
    if grid is None:
        grid = make_grid(rng, prog, impl['dur']) if (want_samples and impl['dur'] < 4000) else []
    out['grid'] = grid
    samples: Dict[str, Any] = {}
    if want_samples and wf is not None and uniform and grid:
        # ONE sample-time array for all channels (what plotting.render and the hardware drivers do); it has to
        # come back unchanged
        times = np.array([float(t) for t in grid], dtype=float)
        pristine = times.copy()
        for ch in sorted(sets[0], key=chan_atom):
            a = chan_atom(ch)
            try:
                arr = wf.get_sampled(ch, times)
                samples[a] = ['nan' if math.isnan(x) else F(float(x)) for x in arr]
            except Exception as exc:  # noqa
                samples[a] = 'error:' + core.classify_exception(exc)
            if 'grid_modified' not in impl and not np.array_equal(times, pristine):
                i = int(np.flatnonzero(times != pristine)[0])
                impl['grid_modified'] = {'channel': a, 'index': i, 't': F(float(pristine[i])), 'now': F(float(times[i]))}
        shared = _leafwise_shared_grid(prog)
        if shared:
            impl['shared_grid'] = shared
    impl['samples'] = samples
    if want_windows:
        try:
            win = prog.get_measurement_windows()
            impl['windows'] = sorted((name, F(float(b)), F(float(l))) for name, (bs, ls) in win.items()
                                     for b, l in zip(bs, ls))
        except Exception as exc:  # noqa
            impl['windows'] = 'error:' + core.classify_exception(exc)
    out['impl'] = impl
    return out


# ------------------------------------------------------------------------------------------------
# talking to the model
# ------------------------------------------------------------------------------------------------

def request_line(pid: str, pt, case: dict, grid: List[F], skip=()) -> str:
    mm = case.get('mm')
    fields = [pid.lower(), 'run',
              ['pt', to_sx(pt)],
              ['params'] + [[k, num_frac(v)] for k, v in case['params'].items()],
              ['mm', 'none'] if mm is None else ['mm'] + [[k, 'none' if v is None else v] for k, v in mm.items()],
              ['cm'] + [[chan_atom(k), 'none' if v is None else chan_atom(v)] for k, v in cm_dict(case).items()],
              ['single'] + list(case.get('single') or []),
              ['grid'] + list(grid)]
    if skip:
        fields.append(['skip'] + list(skip))
    return sx(fields)


def _field(lst, name):
    for x in lst:
        if isinstance(x, list) and x and x[0] == name:
            return x[1:]
    return None


def parse_obs(o) -> dict:
    """(error cls) | (empty) | (skipped) | (ok (chans ..) (dur q) ...) -> dict"""
    if o[0] == 'error':
        return {'status': 'error', 'error': o[1]}
    if o[0] in ('empty', 'skipped'):
        return {'status': o[0]}
    r: Dict[str, Any] = {'status': 'ok'}
    ch = _field(o, 'chans')
    r['chans'] = 'nonuniform' if ch == ['nonuniform'] else sorted(ch)
    r['dur'] = core.as_frac(_field(o, 'dur')[0])
    wd = _field(o, 'wfdur')
    if wd is not None:
        r['wfdur'] = core.as_frac(wd[0]) if wd[0][0] == 'q' else 'error:' + wd[0][1]
    pc = _field(o, 'pieces')
    if pc is not None:
        r['pieces'] = core.as_frac(pc[0])
    smp = _field(o, 'samples') or []
    samples = {}
    if smp != ['nonuniform']:
        for row in smp:
            samples[row[0]] = row[1:]
    r['samples_raw'] = samples
    r['windows'] = sorted((w[0], core.as_frac(w[1]), core.as_frac(w[2])) for w in (_field(o, 'windows') or []))
    return r


def parse_reply(ans) -> dict:
    if ans and ans[0] == 'err':
        raise core.MachineryError('driver rejected a request: %r' % (ans,))
    model = parse_obs(_field(ans, 'model')[0])
    if model['status'] == 'ok':
        model['samples'] = {ch: ['nan' if v == 'nan' else core.as_frac(v) for v in vals]
                            for ch, vals in model['samples_raw'].items()}
    spec = parse_obs(_field(ans, 'spec')[0])
    if spec['status'] == 'ok':
        spec['adm'] = {ch: [[core.as_frac(v) for v in pt_vals] for pt_vals in vals]
                       for ch, vals in spec['samples_raw'].items()}
    td = _field(ans, 'tdur')[0]
    tdur = ('ok', core.as_frac(td[1])) if td[0] == 'ok' else ('error', td[1])
    return {'model': model, 'spec': spec, 'tdur': tdur}


def case_json(case: dict) -> dict:
    """JSON-able form of a case (for replay files and the corpus)"""
    cm = cm_dict(case)
    if any(not isinstance(k, str) for k in cm):
        cm = [[k, v] for k, v in cm.items()]       # JSON object keys are strings: integer channel ids travel in pairs
    out = {'spec': strip(case['spec']), 'params': {k: (v if isinstance(v, int) else float(v)) for k, v in case['params'].items()},
           'cm': cm, 'mm': case.get('mm'), 'single': list(case.get('single') or []),
           'fault': case.get('fault'), 'share': bool(case.get('share')), 'tdur_after': bool(case.get('tdur_after'))}
    if case.get('ptypes'):
        out['ptypes'] = dict(case['ptypes'])
    if case.get('reuse'):
        out['reuse'] = True
    if case.get('enforced'):
        out['enforced'] = True
    return out
