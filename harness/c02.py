"""C02 — measurement windows of a program are the declared windows in absolute time.

Correspondence: `Loop.get_measurement_windows()` of the real program against `QP.PT.Loop.windows` of the
model program (exact rationals, multisets).  Judge: the implementation's windows against
`QP.PT.denote(...).windows`: one window per execution of the declaring node at execution start + begin, named
through the measurement mappings, mirrored about the duration of a time reversed part.
"""
from __future__ import annotations

import fractions
import random

import core
import ptcheck
import ptgen

F = fractions.Fraction
PID = 'C02'


def checker(ctx) -> ptcheck.Checker:
    return ptcheck.Checker(ctx, PID, ('windows',),
                           'create_program/get_measurement_windows vs QP.PT.createProgram/Loop.windows',
                           want_samples=False, want_windows=True)


# (the last four: shapes beyond the default stream, see notes/C02.md "Seeded changes")
GEN = {'measure_p': 0.75, 'drop_p': 0.45, 'zero_p': 0.12,
       'nest_wrap_p': 0.3, 'int_chan_p': 0.1, 'plain_t_p': 0.1, 'reuse_p': 0.25, 'single_p': 0.3, 'self_map_p': 0.15}


def reuse_case(rng: random.Random):
    """Several renamed copies of one measured pulse built the way user code does it in a loop: ONE caller-owned
    measurement / parameter / channel mapping dict is updated and handed to MappingPT for every copy
    (`observe` constructs the instantiated template with `ptgen.build_reusing_dicts` and overwrites the dicts after
    the last construction).  The copies are sequenced / repeated / reversed; every copy has to report its windows
    under the names (and with the parameters) it was constructed with."""
    import copy
    g = ptgen.Gen(rng, 2, measure_p=0.95)
    env, values = g.params()
    body = ptgen.strip(g.atom(['A'], env, None, None, allow_multi=rng.random() < 0.3))
    pt = ptgen.build(body)
    if not pt.measurement_names:
        body = {'k': 'seq', 'subs': [body], 'meas': [['m', '0', '0.5'], ['n', '0.25', 'w0']], 'cons': []}
        pt = ptgen.build(body)
    names = sorted(pt.measurement_names)
    mapped = rng.sample(names, rng.randrange(1, len(names) + 1))
    pnames = sorted(p for p in pt.parameter_names if p in env.wins or p in env.volts)
    p = rng.choice(pnames) if pnames and rng.random() < 0.6 else None
    cm = rng.choice([None, None, [['A', 'A']], [['A', 'X']]])
    parts = []
    for i in range(rng.choice([2, 2, 3])):
        parts.append({'k': 'map', 'body': copy.deepcopy(body),
                      'pm': [[p, '%s + %s' % (p, ptgen.fstr(F(i, 4)))]] if p else None,
                      'mm': [[n, rng.choice(['shot%d' % i, 'shot%d' % i, n, 'x'])] for n in mapped],
                      'cm': copy.deepcopy(cm)})
    spec = {'k': 'seq', 'subs': parts, 'meas': g.measurements(env, None), 'cons': []}
    wrap = rng.randrange(4)
    if wrap == 1:
        spec = {'k': 'rep', 'body': spec, 'count': rng.choice(['2', 'n0 + 1']), 'meas': [['p', '0', '0.25']], 'cons': []}
    elif wrap == 2:
        spec = {'k': 'rev', 'body': spec}
    elif wrap == 3:
        spec = parts[0]
    full = ptgen.build(spec)
    return {'spec': spec, 'params': {k: v for k, v in values.items() if k in full.parameter_names}, 'cm': {}, 'mm': None,
            'single': [], 'reuse': True}


def helper_case(rng: random.Random):
    """PF-10: `RepetitionPT.with_repetition` — the helper's result is observed, the explicit nesting
    RepetitionPT(RepetitionPT(body, n, measurements), k) is what it has to mean."""
    g = ptgen.Gen(rng, 2, measure_p=0.9)
    env, values = g.params()
    body = g.atom(['A'], env, None, None, allow_multi=False)
    inner = {'k': 'rep', 'body': ptgen.strip(body), 'count': rng.choice(['2', '3', 'n0 + 1']),
             'meas': g.measurements(env, F(1), p=0.95) or [['m', '0', '0.5']], 'cons': []}
    k = rng.choice(['2', '3', 'n1 + 1'])
    explicit = {'k': 'rep', 'body': inner, 'count': k, 'meas': [], 'cons': []}
    return {'spec': explicit, 'params': values, 'cm': {}, 'mm': None, 'single': [], 'helper': ['with_repetition', k]}


def empty_case(rng: random.Random):
    """composites that turn out empty (zero repetitions, empty ranges) and carry windows, followed by a
    non-empty sibling: their windows must vanish, not move to the sibling"""
    g = ptgen.Gen(rng, 2, measure_p=0.9)
    env, values = g.params()
    values['z'] = 0
    env.ints['z'] = 0

    def atom():
        return ptgen.strip(g.atom(['A'], env, None, None, allow_multi=False))

    def empty():
        k = rng.randrange(3)
        if k == 0:
            return {'k': 'rep', 'body': atom(), 'count': rng.choice(['0', 'z']), 'meas': [['w', '0', '0.5']], 'cons': []}
        if k == 1:
            return {'k': 'for', 'body': {'k': 'const', 'dur': '1', 'amps': [['A', 'q']], 'meas': [['o', '0', '1']]},
                    'idx': 'q', 'range': rng.choice([['0', 'z', '1'], ['3', '1', '1'], ['0', '2', '-1']]),
                    'meas': [['n', '0.25', '0.5']], 'cons': []}
        return {'k': 'const', 'dur': rng.choice(['0', 'z']), 'amps': [['A', '1']], 'meas': [['m', '0', '0']]}

    def empty_composite():
        k = rng.randrange(3)
        if k == 0:
            return {'k': 'seq', 'subs': [empty() for _ in range(rng.choice([1, 2]))], 'meas': [['x', '0', '1']], 'cons': []}
        if k == 1:
            return {'k': 'map', 'body': {'k': 'seq', 'subs': [empty()], 'meas': [['x', '0.5', '0.5']], 'cons': []},
                    'pm': None, 'mm': [['x', 'y']], 'cm': None}
        return empty()

    parts = [empty_composite() if rng.random() < 0.6 else atom() for _ in range(rng.choice([2, 3]))]
    if rng.random() < 0.8:
        parts.append(atom())
    spec = {'k': 'seq', 'subs': parts, 'meas': g.measurements(env, None), 'cons': []}
    wrap = rng.randrange(4)
    if wrap == 1:
        spec = {'k': 'rep', 'body': spec, 'count': '2', 'meas': [['p', '0', '0.25']], 'cons': []}
    elif wrap == 2:
        spec = {'k': 'rev', 'body': spec}
    elif wrap == 3:
        spec = {'k': 'seq', 'subs': [atom(), spec], 'meas': [], 'cons': []}
    pt = ptgen.build(spec)
    return {'spec': spec, 'params': {k: v for k, v in values.items() if k in pt.parameter_names}, 'cm': {}, 'mm': None,
            'single': []}


def check_helpers(ctx, ck, cases, label='helper-with_repetition'):
    """windows of `inner.with_repetition(k)` (real helper) against the spec of the explicit nesting"""
    from qupulse.expressions import ExpressionScalar
    recs, lines = [], []
    for case in cases:
        inner = ptgen.build(case['spec']['body'])
        # (a plain string count makes the helper raise inside sympy: `ExpressionScalar * str`)
        helper_pt = inner.with_repetition(ExpressionScalar(case['helper'][1]))
        params = {k: v for k, v in case['params'].items() if k in helper_pt.parameter_names}
        try:
            prog = helper_pt.create_program(parameters=dict(params))
            win = sorted((name, F(float(b)), F(float(l))) for name, (bs, ls) in prog.get_measurement_windows().items()
                         for b, l in zip(bs, ls)) if prog is not None else []
        except Exception as exc:  # noqa -- the generated declarations are well-formed: judged below against the spec
            win = 'raises %s (%s)' % (core.classify_exception(exc), str(exc)[:120])
        case['params'] = params
        explicit_pt = ptgen.build(case['spec'])
        lines.append(ptgen.request_line(PID, explicit_pt, case, [], ['samples']))
        recs.append((case, win))
    ok = True
    for (case, win), ans, line in zip(recs, core.Lean.run(lines), lines):
        reply = ptgen.parse_reply(ans)
        ctx.case('helper ' + str(case['helper']) + line)
        ctx.count('family:' + label)
        spec = reply['spec']
        want = spec['windows'] if spec['status'] == 'ok' else []
        if isinstance(win, str):
            if spec['status'] == 'error':
                continue
            ok = False
            ctx.disagreements += 1
            ctx.violation('RepetitionPT(..., measurements).with_repetition(%s).create_program %s; the explicit nesting it '
                          'stands for declares the windows %s [params=%s]'
                          % (case['helper'][1], win, ptcheck.fmt_w(want)[:6], case['params']),
                          {'kind': 'helper', 'case': ptgen.case_json(case), 'helper': case['helper']})
        elif win != want:
            ok = False
            ctx.disagreements += 1
            ctx.violation('RepetitionPT(..., measurements).with_repetition(%s) reports windows %s; the explicit nesting '
                          'it stands for declares %s' % (case['helper'][1], ptcheck.fmt_w(win)[:6], ptcheck.fmt_w(want)[:6]),
                          {'kind': 'helper', 'case': ptgen.case_json(case), 'helper': case['helper']})
    return ok


def run(ctx: core.Ctx):
    ctx.rule = ('the C01 template generator with measurement declarations on every node kind that accepts them '
                '(probability 0.75 per node, up to two per node), nested measurement renamings, top level renamings '
                'including -> None, repetition counts 0/1/n, empty iteration ranges, dropped channels (so that nodes turn '
                'out empty), reversal around repetitions and iterations; a family of composites that turn out empty while '
                'carrying windows, next to non-empty siblings; all nestings of depth <= 3 over two atoms; a '
                'malformed stream; scalar arithmetic around scalar arithmetic / mappings inside atomic composites; a quarter of '
                'the random cases and a dedicated family construct their MappingPTs from caller-owned mapping dicts that '
                'are re-used for the next construction and overwritten afterwards (the model sees the template as '
                'written); integer channel ids; 30% of the random cases are instantiated with a to_single_waveform set; the helper RepetitionPT.with_repetition against its explicit nesting. Windows are '
                'compared as multisets of exact rationals. Non-trivial = a program is produced from a tree with more '
                'than one node')
    ctx.assumptions = [
        'window begins are floats in the implementation (begin + float(body_duration)); exact on the generated dyadic numbers',
        'sympy evaluates the generated rational expressions according to their mathematical meaning',
    ]
    ck = checker(ctx)
    for crec in ctx.corpus():
        replay(ctx, crec, from_corpus=True)
        ctx.corpus_replayed += 1
    depth = 4 if ctx.quick else 6
    descs = [ck.desc(family='exhaustive', seed=i, spec=s) for i, s in enumerate(ptgen.exhaustive_specs(3))]
    ctx.exhaustive_spaces.append('all nestings of depth <= 3 over two atoms, a measurement declared on every node: %d trees'
                                 % len(descs))
    base = ctx.fork('random').getrandbits(48)
    descs += [ck.desc(family='random', seed=base + i, depth=depth, gen=GEN) for i in range(ctx.n(700, 30000))]
    base = ctx.fork('empty').getrandbits(48)
    descs += [ck.desc(family='custom', make=empty_case, seed=base + i, label='empty-composites')
              for i in range(ctx.n(120, 3000))]
    base = ctx.fork('reuse').getrandbits(48)
    descs += [ck.desc(family='custom', make=reuse_case, seed=base + i, label='reused-mapping-dicts')
              for i in range(ctx.n(90, 2500))]
    base = ctx.fork('malformed').getrandbits(48)
    descs += [ck.desc(family='malformed', seed=base + i) for i in range(ctx.n(100, 3000))]
    ck.run_batch(descs)
    hrng = ctx.fork('helpers')
    check_helpers(ctx, ck, [helper_case(hrng) for _ in range(ctx.n(40, 600))])
    ck.replay_known()


def replay(ctx: core.Ctx, rec: dict, from_corpus: bool = False) -> bool:
    if rec.get('kind') == 'helper':
        case = dict(rec['case'])
        case['helper'] = rec['helper']
        return check_helpers(ctx, checker(ctx), [case], label='corpus' if from_corpus else 'replay')
    return checker(ctx).replay(rec, from_corpus)
