"""C13 — parameter scopes behave as the mapping they denote, including volatility.

Correspondence: stacks of the REAL `DictScope / MappedScope / RangeScope / JointScope` objects are
driven with random and exhaustive access histories (`[]`, `in`, `iter`, `len`, `keys`, `items`,
`as_dict`, `get_volatile_parameters`, `change_constants`), the Lean model `QP.C13` (which carries the
objects' memo fields) is driven with the same histories and every answer is compared.  Independently
of the model, every implementation answer is judged by the executable spec (`QP.C13.ansOKB`:
`denote`, `DependsVolatile`, `rebuild`).

A stack is described by a small tree ("desc"):
    ('dict', {name: Fraction}, [volatile names])
    ('mapped', inner, {name: expression string})
    ('range', inner, index name, int)
    ('joint', [(name, desc), ...])          the same desc object twice = the same Python object twice
"""
from __future__ import annotations

import fractions
import itertools
import json
import multiprocessing
import os
import time
import warnings

import core
from core import sx

F = fractions.Fraction

ALPHABETS = (('a', 'b', 'c', 'v', 'w', 'i'), ('a', 'bc', 'v', 'w2', 'i', 'k'))
MISSING = 'zz'
MAX_NUM = 1 << 30
MAX_DEN = 1 << 8


def _imports():
    from qupulse.parameter_scope import (DictScope, MappedScope, JointScope, Scope,
                                         ParameterNotProvidedException)
    from qupulse.pulses.range import RangeScope
    from qupulse.expressions import ExpressionScalar
    from qupulse.utils.types import FrozenDict
    return DictScope, MappedScope, JointScope, RangeScope, ExpressionScalar, FrozenDict, ParameterNotProvidedException


# ---------------------------------------------------------------------------------------------
# expressions: qupulse string -> real Expression object + the sympy-parsed tree the model gets
# ---------------------------------------------------------------------------------------------

class Ex:
    """One pooled expression (pooling keeps sympy's lambdify cost out of the per-case path; the real
    code shares Expression objects between scopes in the same way)."""
    __slots__ = ('text', 'obj', 'tree', 'vars')

    def __init__(self, text: str):
        import sympy
        ExpressionScalar = _imports()[4]
        self.text = text
        self.obj = ExpressionScalar(text)
        self.tree = _walk(self.obj.underlying_expression, sympy)
        self.vars = frozenset(_tree_vars(self.tree))
        if self.vars != frozenset(self.obj.variables):
            raise core.MachineryError('free variables of the transported tree %r differ from Expression.variables %r'
                                      % (sorted(self.vars), self.obj.variables))


def _walk(e, sympy):
    """sympy tree -> ('lit', Fraction) | ('var', name) | ('add'|'mul', l, r) | ('pow', base, k)."""
    if isinstance(e, sympy.Symbol):
        return ('var', str(e))
    if isinstance(e, sympy.Rational):
        return ('lit', F(int(e.p), int(e.q)))
    if isinstance(e, (sympy.Add, sympy.Mul)):
        tag = 'add' if isinstance(e, sympy.Add) else 'mul'
        args = [_walk(a, sympy) for a in e.args]
        out = args[0]
        for a in args[1:]:
            out = (tag, out, a)
        return out
    if isinstance(e, sympy.Pow) and isinstance(e.exp, sympy.Integer) and int(e.exp) >= 0:
        return ('pow', _walk(e.base, sympy), int(e.exp))
    raise core.MachineryError('expression outside the transported fragment: %r' % (e,))


def _tree_vars(t):
    if t[0] == 'var':
        return {t[1]}
    if t[0] == 'lit':
        return set()
    if t[0] == 'pow':
        return _tree_vars(t[1])
    return _tree_vars(t[1]) | _tree_vars(t[2])


def _tree_sx(t):
    if t[0] == 'lit':
        return ['lit', t[1]]
    if t[0] == 'var':
        return ['var', t[1]]
    if t[0] == 'pow':
        return ['pow', _tree_sx(t[1]), t[2]]
    return [t[0], _tree_sx(t[1]), _tree_sx(t[2])]


class TooBig(Exception):
    pass


def _tree_eval(t, env):
    """Exact value; generator-side filter only (keeps every float operation of the real code exact)."""
    if t[0] == 'lit':
        r = t[1]
    elif t[0] == 'var':
        r = env[t[1]]
    elif t[0] == 'pow':
        r = _tree_eval(t[1], env) ** t[2]
    else:
        a, b = _tree_eval(t[1], env), _tree_eval(t[2], env)
        r = a + b if t[0] == 'add' else a * b
    if abs(r.numerator) > MAX_NUM or r.denominator > MAX_DEN:
        raise TooBig()
    return r


_POOL = {}


def ex(text: str) -> Ex:
    e = _POOL.get(text)
    if e is None:
        e = _POOL[text] = Ex(text)
    return e


def expression_pool(rng, alphabet, n_random):
    a, b, c, v, w, i = alphabet
    fixed = [a, v, '%s+1' % a, '%s+%s' % (a, v), '%s*%s' % (a, v), '2', '0', '%s-%s' % (a, b), '%s/2' % v,
             '%s*%s' % (v, v), '(%s+%s)*(%s-%s)' % (a, b, a, b), '%s-%s' % (v, v), '%s*0' % v, '(%s+%s)**2' % (a, i),
             '%s+%s*%s' % (c, w, i), '2*%s-%s' % (i, v), '%s+%s+%s' % (a, b, c), '%s*%s-%s' % (w, i, a), i, w, b, c,
             '3/2', '%s+%s' % (v, w), '%s*%s/4' % (b, c), '-%s' % v, '(%s+1)-%s' % (v, v)]
    out = [ex(t) for t in fixed]
    atoms = list(alphabet) + ['1', '2', '3', '1/2']
    for _ in range(n_random):
        def gen(d):
            if d == 0 or rng.random() < 0.3:
                return rng.choice(atoms)
            return '(%s%s%s)' % (gen(d - 1), rng.choice(['+', '-', '*', '+']), gen(d - 1))
        out.append(ex(gen(2)))
    return out


# ---------------------------------------------------------------------------------------------
# descs
# ---------------------------------------------------------------------------------------------

def build(desc, memo=None):
    """desc -> real qupulse scope objects (shared desc nodes become shared objects)."""
    DictScope, MappedScope, JointScope, RangeScope, _E, FrozenDict, _P = _imports()
    memo = {} if memo is None else memo
    if id(desc) in memo:
        return memo[id(desc)]
    k = desc[0]
    if k == 'dict':
        vals = {n: (int(v) if v.denominator == 1 else float(v)) for n, v in desc[1].items()}
        r = DictScope(FrozenDict(vals), volatile=frozenset(desc[2]))
    elif k == 'mapped':
        r = MappedScope(build(desc[1], memo), FrozenDict({n: ex(t).obj for n, t in desc[2].items()}))
    elif k == 'range':
        r = RangeScope(build(desc[1], memo), desc[2], int(desc[3]))
    elif k == 'joint':
        r = JointScope(FrozenDict({n: build(d, memo) for n, d in desc[1]}))
    else:
        raise core.MachineryError('bad desc %r' % (desc,))
    memo[id(desc)] = r
    return r


def desc_sx(desc):
    k = desc[0]
    if k == 'dict':
        return ['dict', [[n, v] for n, v in desc[1].items()], list(desc[2])]
    if k == 'mapped':
        return ['mapped', desc_sx(desc[1]), [[n, _tree_sx(ex(t).tree)] for n, t in desc[2].items()]]
    if k == 'range':
        return ['range', desc_sx(desc[1]), desc[2], F(desc[3])]
    return ['joint', [[n, desc_sx(d)] for n, d in desc[1]]]


def desc_json(desc, seen=None):
    seen = {} if seen is None else seen
    if id(desc) in seen:
        return ['ref', seen[id(desc)]]
    idx = seen[id(desc)] = len(seen)
    k = desc[0]
    if k == 'dict':
        return ['dict', idx, {n: str(v) for n, v in desc[1].items()}, list(desc[2])]
    if k == 'mapped':
        return ['mapped', idx, desc_json(desc[1], seen), dict(desc[2])]
    if k == 'range':
        return ['range', idx, desc_json(desc[1], seen), desc[2], int(desc[3])]
    return ['joint', idx, [[n, desc_json(d, seen)] for n, d in desc[1]]]


def desc_from_json(j, seen=None):
    seen = {} if seen is None else seen
    k = j[0]
    if k == 'ref':
        return seen[j[1]]
    if k == 'dict':
        r = ('dict', {n: F(v) for n, v in j[2].items()}, list(j[3]))
    elif k == 'mapped':
        r = ('mapped', desc_from_json(j[2], seen), dict(j[3]))
    elif k == 'range':
        r = ('range', desc_from_json(j[2], seen), j[3], int(j[4]))
    else:
        r = ('joint', [(n, desc_from_json(d, seen)) for n, d in j[2]])
    seen[j[1]] = r
    return r


def desc_keys(desc):
    """generator-side: names in the stack (for choosing well-formed layers)."""
    k = desc[0]
    if k == 'dict':
        return set(desc[1])
    if k == 'mapped':
        return set(desc[2]) | desc_keys(desc[1])
    if k == 'range':
        return {desc[2]} | desc_keys(desc[1])
    return {n for n, _ in desc[1]}


def desc_volatile_marks(desc):
    k = desc[0]
    if k == 'dict':
        return set(desc[2])
    if k == 'joint':
        return set().union(*[desc_volatile_marks(d) for _, d in desc[1]]) if desc[1] else set()
    return desc_volatile_marks(desc[1])


def desc_constants(desc):
    k = desc[0]
    if k == 'dict':
        return set(desc[1])
    if k == 'joint':
        return set().union(*[desc_constants(d) for _, d in desc[1]]) if desc[1] else set()
    return desc_constants(desc[1])


def desc_rebuild(desc, new, memo=None):
    memo = {} if memo is None else memo
    if id(desc) in memo:
        return memo[id(desc)]
    k = desc[0]
    if k == 'dict':
        r = ('dict', {n: new.get(n, v) for n, v in desc[1].items()}, desc[2])
    elif k == 'mapped':
        r = ('mapped', desc_rebuild(desc[1], new, memo), desc[2])
    elif k == 'range':
        r = ('range', desc_rebuild(desc[1], new, memo), desc[2], desc[3])
    else:
        r = ('joint', [(n, desc_rebuild(d, new, memo)) for n, d in desc[1]])
    memo[id(desc)] = r
    return r


def desc_depth(desc):
    k = desc[0]
    if k == 'dict':
        return 1
    if k == 'joint':
        return 1 + max([desc_depth(d) for _, d in desc[1]] or [0])
    return 1 + desc_depth(desc[1])


def desc_kinds(desc, out=None):
    out = set() if out is None else out
    out.add(desc[0])
    if desc[0] == 'joint':
        for _, d in desc[1]:
            desc_kinds(d, out)
    elif desc[0] != 'dict':
        desc_kinds(desc[1], out)
    return out


def desc_values(desc, memo=None):
    """name -> exact value or None (missing dependency); raises TooBig.  Generator-side filter only:
    it keeps all numbers in the range where the implementation's float arithmetic is exact."""
    memo = {} if memo is None else memo
    if id(desc) in memo:
        return memo[id(desc)]
    k = desc[0]
    if k == 'dict':
        r = dict(desc[1])
    elif k == 'mapped':
        inner = desc_values(desc[1], memo)
        r = dict(inner)
        for n, t in desc[2].items():
            e = ex(t)
            if all(inner.get(v) is not None for v in e.vars):
                r[n] = _tree_eval(e.tree, inner)
            else:
                r[n] = None
    elif k == 'range':
        r = dict(desc_values(desc[1], memo))
        r[desc[2]] = F(desc[3])
    else:
        r = {n: desc_values(d, memo).get(n) for n, d in desc[1]}
    memo[id(desc)] = r
    return r


# ---------------------------------------------------------------------------------------------
# running a history on the implementation
# ---------------------------------------------------------------------------------------------

def classify(e: BaseException) -> str:
    PNP = _imports()[6]
    if isinstance(e, PNP):
        return 'parameter_missing'
    n = type(e).__name__
    return {'KeyError': 'key_error', 'TypeError': 'type_error', 'ValueError': 'value_error',
            'AttributeError': 'attribute_error'}.get(n, 'other:' + n)


def _pairs(items):
    return sorted((str(k), core.to_frac(v)) for k, v in items)


def impl_op(scope, op):
    """-> (answer, new current scope).  Answers are canonical python data."""
    try:
        k = op[0]
        if k == 'get':
            return ('ok', core.to_frac(scope[op[1]])), scope
        if k == 'has':
            return ('bool', op[1] in scope), scope
        if k == 'iter':
            return ('names', sorted(iter(scope))), scope
        if k == 'len':
            return ('len', len(scope)), scope
        if k == 'keys':
            return ('names', sorted(scope.keys())), scope
        if k == 'items':
            return ('dict', _pairs(scope.items())), scope
        if k == 'asdict':
            return ('dict', _pairs(scope.as_dict().items())), scope
        if k == 'vol':
            return ('names', sorted(scope.get_volatile_parameters().keys())), scope
        if k == 'change':
            new = scope.change_constants({n: (int(v) if v.denominator == 1 else float(v)) for n, v in op[1].items()})
            return ('changed', new is scope), new
        raise core.MachineryError('bad op %r' % (op,))
    except core.MachineryError:
        raise
    except Exception as e:  # noqa
        return ('error', classify(e)), scope


def op_sx(op):
    if op[0] in ('get', 'has'):
        return [op[0], op[1]]
    if op[0] == 'change':
        return ['change', [[n, v] for n, v in op[1].items()]]
    return [op[0]]


def ans_sx(a):
    if a[0] == 'ok':
        return ['ok', a[1]]
    if a[0] == 'bool':
        return a[1]
    if a[0] == 'names':
        return ['names', list(a[1])]
    if a[0] == 'len':
        return ['len', a[1]]
    if a[0] == 'dict':
        return ['dict', [[n, v] for n, v in a[1]]]
    if a[0] == 'changed':
        return ['changed', a[1]]
    if a[0] == 'error':
        return ['error', a[1].replace(':', '-')]
    raise core.MachineryError('bad answer %r' % (a,))


def model_ans(m):
    """parsed driver answer -> canonical python data (sets / dicts sorted)."""
    if m in ('true', 'false'):
        return ('bool', m == 'true')
    tag = m[0]
    if tag == 'ok':
        return ('ok', core.as_frac(m[1]))
    if tag == 'names':
        return ('names', sorted(m[1]))
    if tag == 'len':
        return ('len', int(m[1]))
    if tag == 'dict':
        return ('dict', sorted((kv[0], core.as_frac(kv[1])) for kv in m[1]))
    if tag == 'changed':
        return ('changed', m[1] == 'true')
    if tag == 'error':
        return ('error', m[1])
    raise core.MachineryError('bad model answer %r' % (m,))


def coarse(a):
    """the observable that decides agreement: a missing name is a KeyError of either flavour; whether
    change_constants handed back the same object is memoisation, not behaviour."""
    if a[0] == 'error' and a[1] in ('parameter_missing', 'key_error'):
        return ('error', 'missing')
    if a[0] == 'changed':
        return ('changed',)
    return a


def run_impl(desc, ops):
    """-> answers, generations [(desc_i, object_i)]"""
    with warnings.catch_warnings():
        warnings.simplefilter('ignore')
        scope = build(desc)
        gens = [(desc, scope)]
        answers = []
        cur = desc
        for op in ops:
            a, new = impl_op(scope, op)
            answers.append(a)
            if op[0] == 'change' and a[0] == 'changed':
                cur = desc_rebuild(cur, op[1])
                gens.append((cur, new))
                scope = new
        return answers, gens


FINAL_OPS = [('asdict',), ('vol',), ('len',), ('iter',)]


def with_final(ops):
    """every history ends with a full view of the last object"""
    return list(ops) + FINAL_OPS


def superseded_views(gens):
    """after the history: every superseded object (the receiver of a change_constants call) must still be
    the mapping its own constants describe (immutability) -> list of (desc_i, ops, answers)"""
    out = []
    with warnings.catch_warnings():
        warnings.simplefilter('ignore')
        for d, obj in gens[:-1]:
            out.append((d, FINAL_OPS, [impl_op(obj, op)[0] for op in FINAL_OPS]))
    return out


# ---------------------------------------------------------------------------------------------
# generators
# ---------------------------------------------------------------------------------------------

VALUES = [F(0), F(1), F(-1), F(2), F(3), F(-2), F(1, 2), F(-3, 2), F(5), F(1, 4)]


def random_dict(rng, alphabet, malformed):
    n = rng.randrange(1, 6)
    keys = rng.sample(list(alphabet), n)
    vals = {k: rng.choice(VALUES) for k in keys}
    r = rng.random()
    if r < 0.15:
        vol = []
    elif r < 0.3:
        vol = list(keys)
    else:
        vol = [k for k in keys if rng.random() < 0.45]
    if malformed and rng.random() < 0.3:
        vol.append(rng.choice([MISSING] + [x for x in alphabet if x not in keys] or [MISSING]))
    return ('dict', vals, vol)


def random_layer(rng, alphabet, pool, cur, malformed, allow_joint=True):
    keys = desc_keys(cur)
    r = rng.random()
    if r < 0.5:
        usable = pool if malformed and rng.random() < 0.5 else [e for e in pool if e.vars <= keys]
        m = {}
        for _ in range(rng.choice([1, 1, 2, 2, 3, 4])):
            m[rng.choice(alphabet)] = rng.choice(usable).text
        return ('mapped', cur, m)
    if r < 0.8 or not allow_joint:
        marks = sorted(desc_volatile_marks(cur) & set(alphabet))
        idx = rng.choice(marks) if marks and rng.random() < 0.5 else rng.choice(alphabet)
        return ('range', cur, idx, rng.randrange(-2, 6))
    entries = []
    names = rng.sample(list(alphabet), rng.randrange(1, 4))
    for n in names:
        q = rng.random()
        if q < 0.35 and (n in keys or malformed):
            entries.append((n, cur))                                    # the same object several times
        elif q < 0.8:
            usable = [e for e in pool if e.vars <= keys] or [ex('1')]
            entries.append((n, ('mapped', cur, {n: rng.choice(usable).text})))   # as VolatileValue.operation
        else:
            other = random_stack(rng, alphabet, pool, rng.randrange(1, 3), malformed, allow_joint=False)
            if n not in desc_keys(other) and not (malformed and rng.random() < 0.5):
                other = ('range', other, n, rng.randrange(0, 4))
            entries.append((n, other))
    return ('joint', entries)


def random_stack(rng, alphabet, pool, depth, malformed, allow_joint=True):
    cur = random_dict(rng, alphabet, malformed)
    for _ in range(depth - 1):
        cur = random_layer(rng, alphabet, pool, cur, malformed, allow_joint)
    return cur


def random_ops(rng, alphabet, desc, n_ops):
    keys = sorted(desc_keys(desc))
    consts = sorted(desc_constants(desc))
    marks = sorted(desc_volatile_marks(desc) & set(consts))
    ops = []
    for _ in range(n_ops):
        r = rng.random()
        if r < 0.34:
            q = rng.random()
            n = rng.choice(keys) if keys and q < 0.7 else (rng.choice(alphabet) if q < 0.93 else MISSING)
            ops.append(('get', n))
        elif r < 0.44:
            n = rng.choice(keys) if keys and rng.random() < 0.5 else rng.choice(list(alphabet) + [MISSING])
            ops.append(('has', n))
        elif r < 0.88:
            ops.append((rng.choice(['iter', 'len', 'keys', 'items', 'asdict', 'vol', 'vol', 'asdict']),))
        else:
            new = {}
            for _ in range(rng.choice([1, 1, 2, 3])):
                q = rng.random()
                if marks and q < 0.65:
                    n = rng.choice(marks)                                # the intended use: volatile constants
                elif consts and q < 0.9:
                    n = rng.choice(consts)                               # non-volatile constant (warns, still applies)
                else:
                    n = rng.choice(list(alphabet) + [MISSING])           # possibly not a constant at all: ignored
                new[n] = rng.choice(VALUES)
            ops.append(('change', new))
    return ops


def magnitudes_ok(desc, ops):
    try:
        cur = desc
        desc_values(cur)
        for op in ops:
            if op[0] == 'change':
                cur = desc_rebuild(cur, op[1])
                desc_values(cur)
        return True
    except TooBig:
        return False


# ---- exhaustive small space -------------------------------------------------------------------

EXH_EXPRS = ('a', 'v+1', 'a*v', '2', 'a+b')


def exhaustive_layers(cur):
    for n in ('a', 'b', 'v'):
        for t in EXH_EXPRS:
            yield ('mapped', cur, {n: t})
    yield ('mapped', cur, {'a': 'v', 'v': 'a'})                          # simultaneous swap
    for n in ('a', 'b', 'v'):
        yield ('range', cur, n, 7)
    yield ('joint', [('a', cur), ('v', cur)])
    yield ('joint', [('v', ('mapped', cur, {'v': 'a*v'}))])


def exhaustive_bottoms():
    yield ('dict', {'a': F(1), 'v': F(2)}, [])
    yield ('dict', {'a': F(1), 'v': F(2)}, ['v'])
    yield ('dict', {'a': F(1), 'v': F(2)}, ['a', 'v'])
    yield ('dict', {'v': F(2)}, ['v'])
    yield ('dict', {'a': F(1), 'b': F(3), 'v': F(2)}, ['v'])


def exhaustive_stacks(layers):
    level = list(exhaustive_bottoms())
    yield from level
    for _ in range(layers):
        level = [l for cur in level for l in exhaustive_layers(cur)]
        yield from level


EXH_OPS = (
    [('vol',), ('get', 'a'), ('get', 'v'), ('get', 'b'), ('has', 'a'), ('has', 'b'), ('has', 'v'), ('len',), ('iter',),
     ('keys',), ('items',), ('asdict',), ('change', {'v': F(5)}), ('get', 'a'), ('vol',), ('asdict',), ('len',)],
    [('asdict',), ('keys',), ('change', {'v': F(5), 'b': F(-1)}), ('iter',), ('len',), ('get', 'b'), ('get', 'v'),
     ('get', 'a'), ('items',), ('vol',), ('change', {'zz': F(1)}), ('vol',), ('asdict',), ('has', 'v')],
)


# ---------------------------------------------------------------------------------------------
# checking a batch of histories
# ---------------------------------------------------------------------------------------------

def _describe(desc, ops, i=None):
    return {'kind': 'history', 'scope': desc_json(desc),
            'ops': [[op[0]] + ([op[1]] if op[0] in ('get', 'has') else
                               [{n: str(v) for n, v in op[1].items()}] if op[0] == 'change' else []) for op in ops],
            'failing_op': i}


def ops_from_json(j):
    out = []
    for op in j:
        if op[0] in ('get', 'has'):
            out.append((op[0], op[1]))
        elif op[0] == 'change':
            out.append(('change', {n: F(v) for n, v in op[1].items()}))
        else:
            out.append((op[0],))
    return out


def judge_line(d, ops, answers):
    return sx(['c13', 'judge', desc_sx(d), [op_sx(o) for o in ops], [ans_sx(a) for a in answers]])


def _verdict(line, ans):
    if ans[0] != 'judge':
        raise core.MachineryError('judge refused %s: %r' % (line[:300], ans))
    return None if ans[1] == 'ok' else int(ans[2])


def judge_histories(histories):
    """histories: list of (desc, ops, answers) -> list of None | failing index (Lean's verdict)."""
    lines = [judge_line(d, ops, answers) for d, ops, answers in histories]
    return [_verdict(l, a) for l, a in zip(lines, core.Lean.run(lines))]


def _case_work(desc, ops):
    """one case on the implementation -> answers, model request line, judge request lines"""
    answers, gens = run_impl(desc, ops)
    run_line = sx(['c13', 'run', desc_sx(desc), [op_sx(o) for o in ops]])
    jlines = [judge_line(desc, ops, answers)] + [judge_line(d, o, a) for d, o, a in superseded_views(gens)]
    return answers, run_line, jlines


_WORK = None


def _work_range(bounds):
    return [_case_work(*_WORK[i]) for i in range(*bounds)]


def _lean_range(bounds):
    return core.Lean.run(_WORK[bounds[0]:bounds[1]])


def _parallel(ctx, work, fn, chunk):
    """thorough tier: forked workers over index ranges of `work` (inherited, nothing is pickled on the way in)"""
    global _WORK
    n = len(work)
    if ctx.quick or n < 4 * chunk:
        return None
    _WORK = work
    try:
        with multiprocessing.get_context('fork').Pool(min(12, os.cpu_count() or 1)) as pool:
            parts = pool.map(fn, [(i, min(i + chunk, n)) for i in range(0, n, chunk)])
    finally:
        _WORK = None
    return [r for part in parts for r in part]


def _impl_all(ctx, cases):
    r = _parallel(ctx, cases, _work_range, 500)
    return r if r is not None else [_case_work(d, o) for d, o in cases]


def _lean_all(ctx, lines):
    r = _parallel(ctx, lines, _lean_range, 5000)
    return r if r is not None else core.Lean.run(lines)


def violates(desc, ops):
    """does the implementation violate the property on this history?
    -> None | (index, answers, None) | (None, answers, (generation, its desc, its final answers))"""
    answers, gens = run_impl(desc, ops)
    hs = [(desc, ops, answers)] + superseded_views(gens)
    vs = judge_histories(hs)
    if vs[0] is not None:
        return vs[0], answers, None
    for g, ((d, o, a), v) in enumerate(zip(hs[1:], vs[1:])):
        if v is not None:
            return None, answers, (g, d, a)
    return None


def shrink(desc, ops, budget=120):
    """greedy reduction of a violating history, judged by Lean on the implementation's answers."""
    def candidates(desc, ops):
        for i in range(len(ops)):
            yield desc, ops[:i] + ops[i + 1:]
        k = desc[0]
        if k in ('mapped', 'range'):
            yield desc[1], ops
        if k == 'mapped' and len(desc[2]) > 1:
            for n in desc[2]:
                yield ('mapped', desc[1], {m: t for m, t in desc[2].items() if m != n}), ops
        if k == 'mapped':
            for d2 in (x for x, _ in candidates(desc[1], []) if x is not desc[1]):
                yield ('mapped', d2, desc[2]), ops
        if k == 'range':
            for d2 in (x for x, _ in candidates(desc[1], []) if x is not desc[1]):
                yield ('range', d2, desc[2], desc[3]), ops
        if k == 'joint':
            if len(desc[1]) > 1:
                for j in range(len(desc[1])):
                    yield ('joint', desc[1][:j] + desc[1][j + 1:]), ops
            for j, (n, d) in enumerate(desc[1]):
                for d2 in (x for x, _ in candidates(d, []) if x is not d):
                    yield ('joint', desc[1][:j] + [(n, d2)] + desc[1][j + 1:]), ops
        if k == 'dict':
            if len(desc[1]) > 1:
                for n in desc[1]:
                    yield ('dict', {m: v for m, v in desc[1].items() if m != n}, desc[2]), ops
            for n in desc[2]:
                yield ('dict', desc[1], [m for m in desc[2] if m != n]), ops
    progress = True
    while progress and budget > 0:
        progress = False
        for d2, o2 in candidates(desc, ops):
            budget -= 1
            if budget <= 0:
                break
            try:
                if o2 and magnitudes_ok(d2, o2) and violates(d2, o2) is not None:
                    desc, ops, progress = d2, o2, True
                    break
            except (core.MachineryError, KeyError):
                continue
    return desc, ops


def check_batch(ctx, cases, label, search=True):
    """cases: list of (desc, ops).  Compare implementation / model, judge the implementation."""
    if not cases:
        return
    cases = [(desc, with_final(ops)) for desc, ops in cases]
    t0 = time.time()
    results = _impl_all(ctx, cases)
    ctx.extra['impl_s'] = round(ctx.extra.get('impl_s', 0) + time.time() - t0, 1)
    impl, run_lines, judge_lines, owners = [], [], [], []
    for ci, (answers, run_line, jlines) in enumerate(results):
        impl.append(answers)
        run_lines.append(run_line)
        for jl in jlines:
            judge_lines.append(jl)
            owners.append(ci)
        ctx.count('superseded-object-views', len(jlines) - 1)
    t0 = time.time()
    both = _lean_all(ctx, run_lines + judge_lines)
    ctx.extra['lean_s'] = round(ctx.extra.get('lean_s', 0) + time.time() - t0, 1)
    model = both[:len(run_lines)]
    verdicts = [_verdict(l, a) for l, a in zip(judge_lines, both[len(run_lines):])]
    bad = set()
    for ci, v in zip(owners, verdicts):
        if v is not None:
            bad.add(ci)
    for ci, ((desc, ops), answers, m, line) in enumerate(zip(cases, impl, model, run_lines)):
        kinds = desc_kinds(desc)
        depth = desc_depth(desc)
        ctx.case(line, nontrivial=depth >= 2)
        ctx.count('%s:cases' % label)
        ctx.count('depth:%d' % depth)
        for k in kinds:
            ctx.count('layer:' + k)
        for op, a in zip(ops, answers):
            ctx.count('op:' + op[0])
            if a[0] == 'error':
                ctx.count('error:%s:%s' % (op[0], a[1]))
        if m[0] != 'answers' or len(m) - 1 != len(ops):
            raise core.MachineryError('model refused %s: %r' % (line[:300], m))
        manswers = [model_ans(x) for x in m[1:]]
        if ci in bad:
            report_violation(ctx, desc, ops, search)
            continue
        for i, (op, a, b) in enumerate(zip(ops, answers, manswers)):
            if coarse(a) != coarse(b):
                ctx.drift('history answer %d (%s) of %s' % (i, op[0], label), line, repr(a), repr(b))
                break
            ctx.count('structural_agreement' if a == b else 'structural_difference')


MAX_SHRINKS = 3


def report_violation(ctx, desc, ops, search=True):
    ctx.disagreements += 1
    shrunk = ctx.extra.get('shrunk_violations', 0)
    if search and shrunk < MAX_SHRINKS:
        ctx.extra['shrunk_violations'] = shrunk + 1
        try:
            desc, ops = shrink(desc, ops)
        except Exception:  # noqa  (shrinking is best effort)
            pass
    v = violates(desc, ops)
    if v is None:
        raise core.MachineryError('a judged violation did not reproduce: %s' % sx(desc_sx(desc)))
    i, answers, old = v
    where = 'scope=%s calls=%s' % (sx(desc_sx(desc)), sx([op_sx(o) for o in ops]))
    if old is not None:
        g, d, a = old
        what = ('the receiver of change_constants call #%d is no longer the mapping its constants describe '
                '(final asdict/vol/len/iter = %r); %s' % (g, a, where))
    else:
        what = ('call %d %r answered %r, which is not the answer of the denoted mapping; %s'
                % (i, ops[i], answers[i], where))
        if ops[i][0] == 'vol' and answers[i][0] == 'error' and 'joint' in desc_kinds(desc):
            what = 'PF-07 JointScope.get_volatile_parameters raises %s: ' % answers[i][1] + what
    ctx.violation(what, dict(_describe(desc, ops, i), impl=[repr(a) for a in answers]))


# ---------------------------------------------------------------------------------------------
# families
# ---------------------------------------------------------------------------------------------

def family_random(ctx, name, n, malformed):
    rng = ctx.fork(name)
    cases = []
    pools = {}
    tries = 0
    while len(cases) < n and tries < 20 * n:
        tries += 1
        alphabet = ALPHABETS[0] if rng.random() < 0.9 else ALPHABETS[1]
        if alphabet not in pools:
            pools[alphabet] = expression_pool(ctx.fork(name + '/pool/' + alphabet[1]), alphabet, 40)
        depth = rng.choice([1, 2, 2, 3, 3, 3, 4, 4, 5])
        desc = random_stack(rng, alphabet, pools[alphabet], depth, malformed)
        ops = random_ops(rng, alphabet, desc, rng.randrange(3, 15))
        if not magnitudes_ok(desc, ops):
            ctx.count('generator:rejected-magnitude')
            continue
        cases.append((desc, ops))
    return cases


def family_exhaustive(ctx, layers):
    cases = []
    n_stacks = 0
    for desc in exhaustive_stacks(layers):
        n_stacks += 1
        for ops in EXH_OPS:
            if magnitudes_ok(desc, ops):
                cases.append((desc, list(ops)))
    ctx.exhaustive_spaces.append(
        'all stacks of 5 bottom DictScopes x up to %d layers from {3 names x 5 expressions mapped, swap mapping, '
        '3 range indices, 2 joint shapes} (%d stacks) x 2 fixed access histories of 17/14 calls' % (layers, n_stacks))
    return cases


def family_volatile_value(ctx, n):
    """JointScopes built by the real `VolatileValue.operation` (the only place the library builds them)."""
    from qupulse.program.volatile import VolatileRepetitionCount
    rng = ctx.fork('volatile_value')
    alphabet = ALPHABETS[0]
    pool = expression_pool(ctx.fork('volatile_value/pool'), alphabet, 20)
    cases = []
    while len(cases) < n:
        base = random_stack(rng, alphabet, pool, rng.randrange(1, 4), False, allow_joint=False)
        keys = desc_keys(base)
        usable = [e for e in pool if e.vars <= keys and e.vars]
        if not usable:
            continue
        operands = {}
        entries = []
        for name in rng.sample(['c', 'w', 'b'], 2):
            e = rng.choice(usable)
            operands[name] = e
            entries.append((name, ('mapped', base, {name: e.text})))
        desc = ('joint', entries)
        ops = random_ops(rng, alphabet, desc, rng.randrange(3, 9))
        if magnitudes_ok(desc, ops):
            cases.append((desc, ops, operands, base))
    # the library's own constructor must produce a scope with the same observable behaviour as `desc`
    out = []
    for desc, ops, operands, base in cases:
        out.append((desc, ops))
        ops = with_final(ops)
        with warnings.catch_warnings():
            warnings.simplefilter('ignore')
            scope = build(base)
            vals = {n: VolatileRepetitionCount(e.obj, scope) for n, e in operands.items()}
            names = sorted(operands)
            merged = VolatileRepetitionCount.operation('*'.join(names), **vals)
            real = merged._scope
            answers = []
            for op in ops:
                a, real = impl_op(real, op)
                answers.append(a)
        ctx.case('volatile-value ' + sx(desc_sx(desc)))
        ctx.count('volatile_value:operation')
        v = judge_histories([(desc, ops, answers)])[0]
        if v is not None:
            what = ('scope built by VolatileValue.operation violates the property at call %d %r: %r; scope=%s'
                    % (v, ops[v], answers[v], sx(desc_sx(desc))))
            if ops[v][0] == 'vol' and answers[v][0] == 'error':
                what = 'PF-07 JointScope.get_volatile_parameters raises %s. ' % answers[v][1] + what
            ctx.violation(what, dict(_describe(desc, ops, v), impl=[repr(a) for a in answers], via='VolatileValue.operation'))
    return out


def judge_selftest(ctx):
    """Machinery check: the Lean judge must reject every single-answer perturbation of a correct history
    (a judge that accepts everything would make the whole run vacuous)."""
    base = ('dict', {'a': F(1), 'v': F(3)}, ['v'])
    desc = ('range', ('mapped', base, {'x': 'a+v', 'a': '7'}), 'v', 5)
    ops = [('get', 'x'), ('has', 'v'), ('has', 'zz'), ('iter',), ('len',), ('keys',), ('items',), ('asdict',), ('vol',),
           ('get', 'zz'), ('change', {'v': F(10)}), ('get', 'x'), ('asdict',)]
    answers, _ = run_impl(desc, ops)
    perturbed = []
    for i, a in enumerate(answers):
        if a[0] == 'ok':
            b = [('ok', a[1] + 1), ('error', 'parameter_missing')]
        elif a[0] == 'bool':
            b = [('bool', not a[1])]
        elif a[0] == 'names':
            b = [('names', a[1][1:]), ('names', a[1] + ['zz']), ('names', a[1] + a[1][:1])]
        elif a[0] == 'len':
            b = [('len', a[1] + 1), ('len', a[1] - 1)]
        elif a[0] == 'dict':
            b = [('dict', a[1][1:]), ('dict', [(a[1][0][0], a[1][0][1] + 1)] + a[1][1:]), ('dict', a[1] + [('zz', F(0))])]
        elif a[0] == 'error':
            b = [('ok', F(0))]
        else:
            continue
        for x in b:
            perturbed.append((i, answers[:i] + [x] + answers[i + 1:]))
    verdicts = judge_histories([(desc, ops, answers)] + [(desc, ops, p) for _, p in perturbed])
    if verdicts[0] is not None:
        return      # the implementation itself is off on this history: reported by the ordinary families
    for (i, p), v in zip(perturbed, verdicts[1:]):
        if v != i:
            raise core.MachineryError('judge self-test: perturbed answer %d %r was not rejected (verdict %r)' % (i, p[i], v))
    ctx.extra['judge_selftest_rejected'] = len(perturbed)


def run(ctx: core.Ctx):
    judge_selftest(ctx)
    ctx.rule = ('stacks of real DictScope/MappedScope/RangeScope/JointScope objects: (1) exhaustive small stacks '
                '(5 bottoms, 21 layer kinds, all nestings up to the tier bound) with two fixed call histories; '
                '(2) random stacks of depth<=5 over <=6 names, 67 pooled expressions (+,-,*,**k, rational literals), '
                'random volatile subsets, loop indices preferring volatile names, joint scopes with shared / mapped / '
                'independent entries, random histories of 3-14 calls incl. change_constants; (3) joint scopes built by '
                'VolatileValue.operation; (4) malformed stacks (mapping variables missing from the outer scope, joint '
                'entries not providing their name, unknown volatile marks, lookups of absent names). Every answer is '
                'compared with the model and judged by the Lean spec; after each history every generation object is '
                'judged again (immutability, change_constants == rebuild). Non-trivial = at least two layers; '
                'distinct by canonical request line')
    ctx.assumptions = [
        'sympy parses the pooled expression strings into the Add/Mul/Pow/Rational/Symbol trees that are transported; '
        'lambdified evaluation of such a tree on ints and small dyadic floats is exact (values are kept below 2^30 with '
        'denominators <= 2^8 by the generator)',
        'objects shared between two places of a stack have one memo in Python and two in the model (memo contents are '
        'proved unobservable)',
    ]
    for rec in ctx.corpus():
        replay(ctx, rec, from_corpus=True)
        ctx.corpus_replayed += 1
    check_batch(ctx, family_exhaustive(ctx, ctx.n(2, 3)), 'exhaustive')
    check_batch(ctx, family_random(ctx, 'random', ctx.n(2500, 50000), False), 'random')
    check_batch(ctx, family_volatile_value(ctx, ctx.n(150, 3000)), 'volatile-value')
    check_batch(ctx, family_random(ctx, 'malformed', ctx.n(700, 12000), True), 'malformed')
    if ctx.drifts and not ctx.violations:
        # failing-input search: the model no longer predicts the code; look for an input on which the
        # code itself breaks the property (every case is judged on the implementation's answers)
        check_batch(ctx, family_random(ctx, 'search', ctx.n(4000, 40000), False), 'search')
        check_batch(ctx, family_exhaustive(ctx, 3), 'search-exhaustive')


def replay(ctx: core.Ctx, rec: dict, from_corpus: bool = False) -> bool:
    desc = desc_from_json(rec['scope'])
    ops = ops_from_json(rec['ops'])
    if ops[-len(FINAL_OPS):] == FINAL_OPS:
        ops = ops[:-len(FINAL_OPS)]
    before = len(ctx.violations)
    check_batch(ctx, [(desc, ops)], 'corpus' if from_corpus else 'replay', search=False)
    return len(ctx.violations) == before
