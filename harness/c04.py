"""C04 — durations are exact and the template, the program and its pieces agree on them.

Correspondence: `Loop.duration`, `to_waveform(program).duration`, the sum over all played pieces and
`pt.duration.evaluate_in_scope(parameters)` of the real code against `Loop.duration`, `toWaveform`, `piecesSum`
and `templateDuration` of the model, all as exact rationals.  Judge: the four implementation values are one
rational, equal to the duration of the denoted pulse and to the exact value of the template's duration
expression (0 for an empty program).
"""
from __future__ import annotations

import fractions
import random

import core
import ptcheck
import ptgen

F = fractions.Fraction
PID = 'C04'


def checker(ctx, exact=True) -> ptcheck.Checker:
    return ptcheck.Checker(ctx, PID, ('durations',),
                           'Loop.duration/to_waveform().duration/pieces/template duration vs QP.PT',
                           want_samples=False, want_windows=False, tdur_exact=exact)


def huge_case(rng: random.Random):
    """repetition counts 10^6 .. 10^12 around short (decimal) pieces: any accumulation of rounding shows"""
    for _ in range(20):
        try:
            return _huge_case(rng)
        except Exception:   # noqa -- an ill-formed draw (e.g. unused loop index): draw again
            continue
    raise core.MachineryError('could not draw a huge-count case')


def _huge_case(rng: random.Random):
    g = ptgen.Gen(rng, 2, stream=rng.choice(['decimal', 'dyadic']), measure_p=0.0)
    env, values = g.params()
    body = g.template(rng.choice([1, 2]), ['A'], env)
    n = rng.choice([10 ** 6, 10 ** 9, 10 ** 12, 3 * 10 ** 11 + 7, 2 ** 40 + 1])
    values['big'] = n
    spec = {'k': 'rep', 'body': ptgen.strip(body), 'count': rng.choice(['big', 'big + 1', '2*big']), 'meas': [], 'cons': []}
    if rng.random() < 0.4:
        values['big2'] = rng.choice([10 ** 3, 10 ** 6])
        spec = {'k': 'rep', 'body': spec, 'count': 'big2', 'meas': [], 'cons': []}
    if rng.random() < 0.3:
        spec = {'k': 'seq', 'subs': [spec, ptgen.strip(g.atom(['A'], env))], 'meas': [], 'cons': []}
    pt = ptgen.build(spec)
    return {'spec': spec, 'params': {k: v for k, v in values.items() if k in pt.parameter_names}, 'cm': {}, 'mm': None,
            'single': []}


RATIONAL_TIMES = ['T0/3', '2*T0/3', 'T1/5', 'T0/7', '3*T1/7', 'T0/3 + T1/5', 'T0/6', 'T1/3',
                  'T0/4', 'T0 + T1/2', '(T0 + T1)/4', '3*T1/8', 'T1/2 + T0/5']
RATIONAL_TABLES = [('T0/3', '2*T0/3'), ('T1/5', 'T1/5 + T0/3'), ('T0/7', 'T0/3'), ('T0/6', 'T0/3'),
                   ('T0/4', 'T0/2'), ('T1/8', 'T1/8 + T0/4'), ('T1/2', 'T1/2 + T0/4')]
# short decimals as they come out of numpy.linspace(0.1, 0.5, 5).round(1) and friends (none of them dyadic but 0.5)
DECIMAL_VALUES = [0.1, 0.2, 0.3, 0.4, 0.5, 0.7, 1.2, 2.35, 0.05]
# generator shapes beyond the default stream, see notes/C04.md "Seeded changes"
GEN = {'int_chan_p': 0.1, 'typed_p': 0.4, 'reuse_p': 0.15, 'nest_wrap_p': 0.1, 'self_map_p': 0.3}


def rational_case(rng: random.Random):
    """time expressions with non-dyadic rational constants ('/3', '/5', '/7') in table entry times and function
    durations (the places that are evaluated with exact rationals), integer parameters, the template-side
    quantities evaluated numerically before or after create_program, equal expression strings sharing ONE
    expression object (so that a window of an enclosing sequence and an entry time share their caches), and
    repetition counts up to 10^12. Program-side durations must be the exact rationals."""
    values = {'T0': rng.choice([1, 2, 3, 5]), 'T1': rng.choice([1, 2, 4, 7]), 'n': rng.choice([1, 2, 3]),
              'big': rng.choice([10 ** 6, 10 ** 9, 10 ** 12, 3 * 10 ** 11 + 7])}
    # half of the cases: short decimal time parameters, handed over as python float / numpy.float64 / TimeType (and the
    # integers as int / numpy.int64): a float of either kind means its shortest decimal representation, so the exact
    # durations do not depend on the type
    typed = rng.random() < 0.5
    if typed:
        if rng.random() < 0.8:
            values['T0'] = rng.choice(DECIMAL_VALUES)
        if rng.random() < 0.6:
            values['T1'] = rng.choice(DECIMAL_VALUES)

    def texpr():
        return rng.choice(RATIONAL_TIMES)

    used = []

    def atom():
        k = rng.random()
        if k < 0.45:
            d = texpr()
            used.append(d)
            return {'k': 'func', 'ch': 'A', 'dur': d, 'expr': rng.choice(['1 + t', '0.5', 'T0*t']), 'meas': [], 'cons': []}
        if k < 0.9:
            a, b = rng.choice(RATIONAL_TABLES)
            entries = [['0', '1', 'hold'], [a, '2', rng.choice(['hold', 'linear', 'jump'])]]
            if rng.random() < 0.6:
                entries.append([b, '0', rng.choice(['hold', 'linear'])])
            used.append(entries[-1][0])
            return {'k': 'table', 'entries': [['A', entries]], 'meas': [], 'cons': []}
        return {'k': 'const', 'dur': rng.choice(['T0', '0.5', 'T1']), 'amps': [['A', '1']], 'meas': []}

    def tree(depth):
        if depth <= 1:
            return atom()
        k = rng.choice(['seq', 'seq', 'rep', 'rep', 'for', 'rev', 'map'])
        if k == 'seq':
            subs = [tree(depth - 1) for _ in range(rng.choice([1, 2, 3]))]
            # a window of the sequence that is literally one of the time expressions used below it: with shared
            # expression objects it is evaluated numerically before the entry time / duration is evaluated exactly
            meas = [['m', '0', rng.choice(used)]] if used and rng.random() < 0.6 else []
            return {'k': 'seq', 'subs': subs, 'meas': meas, 'cons': []}
        if k == 'rep':
            return {'k': 'rep', 'body': tree(depth - 1), 'count': rng.choice(['n', '3', 'big', 'big', '2*big + 1']),
                    'meas': [], 'cons': []}
        if k == 'for':
            body = {'k': 'seq', 'subs': [tree(depth - 1), {'k': 'const', 'dur': '1', 'amps': [['A', 'i']], 'meas': []}],
                    'meas': [], 'cons': []}
            return {'k': 'for', 'body': body, 'idx': 'i', 'range': rng.choice([['0', 'n', '1'], ['3', '0', '-2']]),
                    'meas': [], 'cons': []}
        if k == 'rev':
            return {'k': 'rev', 'body': tree(depth - 1)}
        return {'k': 'map', 'body': tree(depth - 1), 'pm': None, 'mm': None, 'cm': None}

    spec = tree(rng.choice([1, 2, 3]))
    pt = ptgen.build(spec)
    case = {'spec': spec, 'params': {k: v for k, v in values.items() if k in pt.parameter_names}, 'cm': {}, 'mm': None,
            'single': [], 'share': rng.random() < 0.7, 'tdur_after': rng.random() < 0.4}
    if typed:
        case['ptypes'] = ptgen.draw_ptypes(rng, case['params'])
    return case


def nested_reps_case(rng: random.Random):
    for _ in range(20):
        try:
            return _nested_reps_case(rng)
        except Exception:   # noqa -- an ill-formed draw
            continue
    raise core.MachineryError('could not draw a nested-repetitions case')


def _nested_reps_case(rng: random.Random):
    """three and more directly nested repetitions (counts 1..4, literal or by parameter) over a mostly non-constant body,
    optionally separated by levels that run once (time reversal, a mapping, a one-element sequence, count 1): template
    duration = Loop.duration = to_waveform(program).duration = sum of the played pieces"""
    g = ptgen.Gen(rng, 2, measure_p=0.0)
    env, values = g.params()
    values.update(k1=rng.choice([1, 2, 3]), k2=rng.choice([2, 3, 5]))
    k = rng.random()
    if k < 0.35:
        body = {'k': 'func', 'ch': 'A', 'dur': g.p2time(env)[0], 'expr': rng.choice(['t', '1 + t/2', 'v0*t']), 'meas': [], 'cons': []}
    elif k < 0.7:
        body = {'k': 'table', 'entries': [['A', [['0', '0', 'hold'], [g.p2time(env)[0], 'v1', 'linear']]]], 'meas': [], 'cons': []}
    elif k < 0.85:
        body = {'k': 'seq', 'subs': [ptgen.strip(g.atom(['A'], env)), ptgen.strip(g.atom(['A'], env))], 'meas': [], 'cons': []}
    else:
        body = ptgen.strip(g.atom(['A'], env))
    spec = body
    for level in range(rng.choice([3, 3, 3, 4, 5])):
        spec = {'k': 'rep', 'body': spec, 'count': rng.choice(['2', '2', '3', '4', 'k1', 'k2', 'k1 + 1', '1']), 'meas': [], 'cons': []}
        between = rng.random()
        if between < 0.12:
            spec = {'k': 'rev', 'body': spec}
        elif between < 0.2:
            spec = {'k': 'map', 'body': spec, 'pm': None, 'mm': None, 'cm': None}
        elif between < 0.27:
            spec = {'k': 'seq', 'subs': [spec], 'meas': [], 'cons': []}
    pt = ptgen.build(spec)
    case = {'spec': spec, 'params': {k: v for k, v in values.items() if k in pt.parameter_names}, 'cm': {}, 'mm': None,
            'single': []}
    return case


def enforced_case(rng: random.Random):
    for _ in range(20):
        try:
            return _enforced_case(rng)
        except Exception:   # noqa -- an ill-formed draw
            continue
    raise core.MachineryError('could not draw an enforced-duration case')


def _enforced_case(rng: random.Random):
    """AtomicMultiChannelPT(..., duration=D): D is a parameter that agrees with the sub-templates (the program lasts D)
    or contradicts them (instantiation has to fail: whenever a program is returned it lasts what the template says).
    One, two or three sub-templates; in half of the cases all but one lose their channels (MappingPT -> None or the top
    level channel mapping), so that exactly one sub-waveform survives."""
    g = ptgen.Gen(rng, 2, measure_p=0.0)
    env, values = g.params()
    common = g.p2time(env)
    n = rng.choice([1, 1, 2, 2, 3])
    chans = ptgen.CHAN_POOL[:n]
    subs = [ptgen.strip(g.atom([c], env, common, None, allow_multi=False)) for c in chans]
    cm = {}
    if n > 1 and rng.random() < 0.6:
        for i, c in enumerate(chans[1:], 1):
            if rng.random() < 0.5:
                subs[i] = {'k': 'map', 'body': subs[i], 'pm': None, 'mm': None, 'cm': [[c, None]]}
            else:
                cm[c] = None
    contradict = rng.random() < 0.45
    values['D'] = float(common[1] * rng.choice([2, F(1, 2), 4]) if contradict else common[1])
    spec = {'k': 'amulti', 'subs': subs, 'dur': rng.choice(['D', 'D', '2*D/2']), 'meas': [], 'cons': []}
    k = rng.random()
    if k < 0.25:
        spec = {'k': 'rep', 'body': spec, 'count': '2', 'meas': [], 'cons': []}
    elif k < 0.45:
        spec = {'k': 'seq', 'subs': [spec, ptgen.strip(g.atom([chans[0]], env, None, None, allow_multi=False))], 'meas': [], 'cons': []}
        if cm:
            cm = {}
            spec['subs'][0]['subs'] = [s if i == 0 or s['k'] == 'map' else {'k': 'map', 'body': s, 'pm': None, 'mm': None,
                                       'cm': [[chans[i], None]]} for i, s in enumerate(subs)]
    elif k < 0.6:
        spec = {'k': 'map', 'body': spec, 'pm': [['D', 'D']], 'mm': None, 'cm': None}
    pt = ptgen.build(spec)
    return {'spec': spec, 'params': {k: v for k, v in values.items() if k in pt.parameter_names}, 'cm': cm, 'mm': None,
            'single': [], 'enforced': True}


def run(ctx: core.Ctx):
    ctx.rule = ('three number streams over the C01 template generator: (1) integers and dyadics - all four quantities and '
                'the template duration must be equal rationals; (2) short decimals given directly as durations '
                '(0.1, 2.35, ...) - the program-side durations must equal the exact rational (decisive), the float '
                'evaluation of the template duration only within 2^-40 relative; (3) repetition counts 10^6..10^12 around '
                'short pieces; (4) non-dyadic rational constants (/3, /5, /7) in table entry times and function durations '
                'with integer parameters, template-side quantities evaluated numerically before or after create_program, '
                'shared expression objects between windows and entry times, counts up to 10^12 - program side exact; half of '
                'these cases with short non-dyadic decimal parameters handed over as python float / numpy.float64 / TimeType '
                '(integers as int / numpy.int64): the exact durations do not depend on the type that carries a value, a '
                'float of either kind means its shortest decimal representation; typed parameter values in 40% of streams '
                '(1) and (2) as well. (5) three to five directly nested repetitions over non-constant bodies, optionally separated by levels that run once. (6) AtomicMultiChannelPT with an enforced duration that agrees with / contradicts its sub-templates, all but one sub-template dropped; mappings that re-define a time / count parameter by itself. Plus all nestings of depth <= 3 over two atoms and a malformed stream. Non-trivial = a '
                'program is produced from a tree with more than one node')
    ctx.assumptions = [
        'TimeType.from_float turns a float into the rational of its shortest decimal representation (C14)',
        'the symbolic duration of a template is checked through its numeric evaluation only',
        'the template duration is compared with the program duration only if every atomic leaf keeps a channel',
    ]
    ck = checker(ctx)
    for crec in ctx.corpus():
        ck.replay(crec, from_corpus=True)
        ctx.corpus_replayed += 1
    depth = 4 if ctx.quick else 6
    descs = [ck.desc(family='exhaustive', seed=i, spec=s) for i, s in enumerate(ptgen.exhaustive_specs(3))]
    ctx.exhaustive_spaces.append('all nestings of depth <= 3 over two atoms: %d trees' % len(descs))
    base = ctx.fork('dyadic').getrandbits(48)
    descs += [ck.desc(family='random', seed=base + i, depth=depth, label='dyadic', gen=dict(GEN, measure_p=0.1))
              for i in range(ctx.n(900, 20000))]
    base = ctx.fork('nested-reps').getrandbits(48)
    descs += [ck.desc(family='custom', make=nested_reps_case, seed=base + i, label='nested-repetitions')
              for i in range(ctx.n(120, 2500))]
    base = ctx.fork('enforced').getrandbits(48)
    descs += [ck.desc(family='custom', make=enforced_case, seed=base + i, label='enforced-duration')
              for i in range(ctx.n(100, 2000))]
    base = ctx.fork('malformed').getrandbits(48)
    descs += [ck.desc(family='malformed', seed=base + i) for i in range(ctx.n(100, 2000))]
    ck.run_batch(descs)
    # decimal stream: template duration toleranced, program side exact
    ckd = checker(ctx, exact=False)
    base = ctx.fork('decimal').getrandbits(48)
    descs = [ckd.desc(family='random', seed=base + i, depth=depth, stream='decimal', label='decimal',
                      gen=dict(GEN, measure_p=0.0)) for i in range(ctx.n(500, 10000))]
    base = ctx.fork('huge').getrandbits(48)
    descs += [ckd.desc(family='custom', make=huge_case, seed=base + i, label='huge-counts', skip_spec=True)
              for i in range(ctx.n(150, 3000))]
    base = ctx.fork('rational').getrandbits(48)
    descs += [ckd.desc(family='custom', make=rational_case, seed=base + i, label='rational-constants', skip_spec=True,
                       toleranced=True) for i in range(ctx.n(300, 6000))]
    ckd.run_batch(descs)
    ck.replay_known()


def replay(ctx: core.Ctx, rec: dict, from_corpus: bool = False) -> bool:
    return checker(ctx, exact=not rec.get('toleranced')).replay(rec, from_corpus)
