"""C04 — durations are exact and the template, the program and its pieces agree on them.

Correspondence: `Loop.duration`, `to_waveform(program).duration`, the sum over all played pieces and
`pt.duration.evaluate_in_scope(parameters)` of the real code against `Loop.duration`, `toWaveform`, `piecesSum`
and `templateDuration` of the model, all as exact rationals.  Judge: the four implementation values are one
rational, equal to the duration of the denoted pulse and to the exact value of the template's duration
expression (0 for an empty program).
"""
from __future__ import annotations

import fractions
import random

import core
import ptcheck
import ptgen

F = fractions.Fraction
PID = 'C04'


def checker(ctx, exact=True) -> ptcheck.Checker:
    return ptcheck.Checker(ctx, PID, ('durations',),
                           'Loop.duration/to_waveform().duration/pieces/template duration vs QP.PT',
                           want_samples=False, want_windows=False, tdur_exact=exact)


def huge_case(rng: random.Random):
    """repetition counts 10^6 .. 10^12 around short (decimal) pieces: any accumulation of rounding shows"""
    for _ in range(20):
        try:
            return _huge_case(rng)
        except Exception:   # noqa -- an ill-formed draw (e.g. unused loop index): draw again
            continue
    raise core.MachineryError('could not draw a huge-count case')


def _huge_case(rng: random.Random):
    g = ptgen.Gen(rng, 2, stream=rng.choice(['decimal', 'dyadic']), measure_p=0.0)
    env, values = g.params()
    body = g.template(rng.choice([1, 2]), ['A'], env)
    n = rng.choice([10 ** 6, 10 ** 9, 10 ** 12, 3 * 10 ** 11 + 7, 2 ** 40 + 1])
    values['big'] = n
    spec = {'k': 'rep', 'body': ptgen.strip(body), 'count': rng.choice(['big', 'big + 1', '2*big']), 'meas': [], 'cons': []}
    if rng.random() < 0.4:
        values['big2'] = rng.choice([10 ** 3, 10 ** 6])
        spec = {'k': 'rep', 'body': spec, 'count': 'big2', 'meas': [], 'cons': []}
    if rng.random() < 0.3:
        spec = {'k': 'seq', 'subs': [spec, ptgen.strip(g.atom(['A'], env))], 'meas': [], 'cons': []}
    pt = ptgen.build(spec)
    return {'spec': spec, 'params': {k: v for k, v in values.items() if k in pt.parameter_names}, 'cm': {}, 'mm': None,
            'single': []}


def run(ctx: core.Ctx):
    ctx.rule = ('three number streams over the C01 template generator: (1) integers and dyadics - all four quantities and '
                'the template duration must be equal rationals; (2) short decimals given directly as durations '
                '(0.1, 2.35, ...) - the program-side durations must equal the exact rational (decisive), the float '
                'evaluation of the template duration only within 2^-40 relative; (3) repetition counts 10^6..10^12 around '
                'short pieces. Plus all nestings of depth <= 3 over two atoms and a malformed stream. Non-trivial = a '
                'program is produced from a tree with more than one node')
    ctx.assumptions = [
        'TimeType.from_float turns a float into the rational of its shortest decimal representation (C14)',
        'the symbolic duration of a template is checked through its numeric evaluation only',
        'the template duration is compared with the program duration only if every atomic leaf keeps a channel',
    ]
    ck = checker(ctx)
    for crec in ctx.corpus():
        ck.replay(crec, from_corpus=True)
        ctx.corpus_replayed += 1
    depth = 4 if ctx.quick else 6
    descs = [ck.desc(family='exhaustive', seed=i, spec=s) for i, s in enumerate(ptgen.exhaustive_specs(3))]
    ctx.exhaustive_spaces.append('all nestings of depth <= 3 over two atoms: %d trees' % len(descs))
    base = ctx.fork('dyadic').getrandbits(48)
    descs += [ck.desc(family='random', seed=base + i, depth=depth, label='dyadic', gen={'measure_p': 0.1})
              for i in range(ctx.n(900, 20000))]
    base = ctx.fork('malformed').getrandbits(48)
    descs += [ck.desc(family='malformed', seed=base + i) for i in range(ctx.n(100, 2000))]
    ck.run_batch(descs)
    # decimal stream: template duration toleranced, program side exact
    ckd = checker(ctx, exact=False)
    base = ctx.fork('decimal').getrandbits(48)
    descs = [ckd.desc(family='random', seed=base + i, depth=depth, stream='decimal', label='decimal',
                      gen={'measure_p': 0.0}) for i in range(ctx.n(500, 10000))]
    base = ctx.fork('huge').getrandbits(48)
    descs += [ckd.desc(family='custom', make=huge_case, seed=base + i, label='huge-counts', skip_spec=True)
              for i in range(ctx.n(150, 3000))]
    ckd.run_batch(descs)
    ck.replay_known()


def replay(ctx: core.Ctx, rec: dict, from_corpus: bool = False) -> bool:
    return checker(ctx, exact=not rec.get('toleranced')).replay(rec, from_corpus)
