"""C18 — the hardware setup routes every program to exactly the right devices.

Correspondence: operation histories are executed on the REAL `HardwareSetup` wired to real `DummyAWG` /
`DummyDAC` objects, with real `Loop` programs created from qupulse pulse templates; the same histories are
run by the Lean model `QP.C18.step`.  After every call the dummy devices' dictionaries, the setup's own
records and the armed programs are compared with the model state, and the routing invariant `QP.C18.Inv`
(executable twin `invB`, proved equivalent) is judged on the IMPLEMENTATION's state, together with
`ArmSpec` after arming and `Gone` after removal / clearing.

Histories that re-wire a channel / measurement name while a registered program uses it are outside the
statement (DESIGN 4/C18): the model tells which step re-wires, from there on the history is compared but
not judged.
"""
from __future__ import annotations

import fractions
import hashlib
import itertools
import json
import multiprocessing
import os
import warnings

import core
from core import sx

F = fractions.Fraction
PB, MK = 'pb', 'mk'


def _imports():
    from qupulse.hardware.setup import HardwareSetup, PlaybackChannel, MarkerChannel, MeasurementMask
    from qupulse.hardware.awgs.dummy import DummyAWG
    from qupulse.hardware.dacs.dummy import DummyDAC
    return HardwareSetup, PlaybackChannel, MarkerChannel, MeasurementMask, DummyAWG, DummyDAC


# ---------------------------------------------------------------------------------------------
# names <-> numbers (the Lean model uses natural numbers)
# ---------------------------------------------------------------------------------------------

# ChannelID = Union[str, int] and measurement names are arbitrary dictionary keys: a history uses one identifier
# style — 'str' ('ch3', 'm1'), 'int' (3, 1; the integer 0 included) or 'mixed' (even numbers as integers, odd ones
# as strings).  The style is fixed per executed history (`execute` sets it; one history at a time per process).
STYLE = 'str'
STYLES = ('str', 'int', 'mixed')


def _ident(prefix, i):
    # a style may carry the bench option '/shared-label' (all generator objects report ONE identifier string; the
    # setup has to tell devices apart by object, not by label)
    base = STYLE.split('/')[0]
    if base == 'int' or (base == 'mixed' and i % 2 == 0):
        return int(i)
    return '%s%d' % (prefix, i)


def ch_name(i): return _ident('ch', i)
def meas_name(i): return _ident('m', i)
def mask_name(i): return 'K%d' % i
def prog_name(i): return 'p%d' % i


class Unknown:
    """numbers for strings the harness did not hand out (only a changed implementation produces them)"""
    def __init__(self):
        self.table = {}

    def idx(self, prefix, s):
        if isinstance(s, str) and s.startswith(prefix) and s[len(prefix):].isdigit():
            return int(s[len(prefix):])
        if prefix in ('ch', 'm') and isinstance(s, int) and not isinstance(s, bool) and 0 <= s < 900:
            return s                                     # integer identifiers stand for themselves
        return self.table.setdefault((prefix, repr(s)), 900 + len(self.table))


# ---------------------------------------------------------------------------------------------
# real programs from pulse templates
# ---------------------------------------------------------------------------------------------

_PT_CACHE = {}
_LOOP_CACHE = {}


def build_program(channels, meas, shape):
    """a fresh real Loop: `create_program` of a real template, run once per distinct specification; later
    requests get qupulse's own `copy_tree_structure` of that program (measurements are dropped from a program
    by a successful registration, so every registration needs its own object)"""
    key = (STYLE, channels, meas, shape)
    if key not in _LOOP_CACHE:
        _LOOP_CACHE[key] = build_template(channels, meas, shape).create_program()
    return _LOOP_CACHE[key].copy_tree_structure()


def build_template(channels, meas, shape):
    """channels: tuple of channel numbers; meas: tuple of (measurement number, ((begin, length), ...));
    shape selects the template classes.  All times are dyadic, so the float windows are exact."""
    key = (STYLE, channels, meas, shape)
    if key in _PT_CACHE:
        return _PT_CACHE[key]
    from qupulse.pulses import TablePT, ConstantPT, SequencePT, RepetitionPT
    decl = [(meas_name(m), float(b), float(l)) for m, wins in meas for (b, l) in wins]
    names = [ch_name(c) for c in channels]
    if shape == 0:
        pt = ConstantPT(4, {c: 0.5 + i for i, c in enumerate(names)}, measurements=decl)
    elif shape == 1:
        pt = TablePT({c: [(0, 0.25 * i), (4, 1.0, 'linear')] for i, c in enumerate(names)}, measurements=decl)
    elif shape == 2:
        pt = RepetitionPT(ConstantPT(4, {c: 0.5 for c in names}, measurements=decl), 2)
    else:
        first = ConstantPT(2, {c: 0.25 for c in names}, measurements=decl[:1])
        second = ConstantPT(4, {c: 1.0 for c in names}, measurements=decl[1:])
        pt = SequencePT(first, second)
    _PT_CACHE[key] = pt
    return pt


def own_windows(loop):
    """the program's own measurement windows, exact, sorted: {measurement number: ((begin, length), ...)}"""
    out = {}
    unk = Unknown()
    for name, (begins, lengths) in loop.get_measurement_windows().items():
        out[unk.idx('m', name)] = tuple(sorted((F(float(b)), F(float(l))) for b, l in zip(begins, lengths)))
    return out


def windows_of_arrays(begins_lengths):
    begins, lengths = begins_lengths
    return tuple(sorted((F(float(b)), F(float(l))) for b, l in zip(begins, lengths)))


# ---------------------------------------------------------------------------------------------
# the world: real devices + real HardwareSetup
# ---------------------------------------------------------------------------------------------

_FAULTY = {}


def faulty_classes():
    """the shipped dummies with fault injection, as real drivers may behave: `fault` 1 = `remove` raises
    RuntimeError, 2 = `arm` raises RuntimeError (AWG); non-zero = `delete_program` raises (DAC)"""
    if not _FAULTY:
        _, _, _, _, DummyAWG, DummyDAC = _imports()

        class FaultyAWG(DummyAWG):
            fault = 0
            label = None          # a fixed identifier label (several devices of a rack may report the same one)

            @property
            def identifier(self):
                return self.label if self.label is not None else super().identifier

            def remove(self, name):
                if self.fault == 1:
                    raise RuntimeError('device busy: cannot remove %r' % (name,))
                super().remove(name)

            def arm(self, name):
                if self.fault == 2:
                    raise RuntimeError('device busy: cannot arm %r' % (name,))
                super().arm(name)

        class FaultyDAC(DummyDAC):
            fault = 0

            def delete_program(self, program_name):
                if self.fault:
                    raise RuntimeError('device busy: cannot delete %r' % (program_name,))
                super().delete_program(program_name)

        _FAULTY['awg'], _FAULTY['dac'] = FaultyAWG, FaultyDAC
    return _FAULTY['awg'], _FAULTY['dac']


FORMS = ('list', 'tuple', 'set', 'gen', 'iter', 'map')


def as_collection(items, form):
    """the legal forms of an `Iterable[...]` argument: list, tuple, set, and one-shot iterators"""
    if form == 'tuple':
        return tuple(items)
    if form == 'set':
        try:
            return set(items)
        except TypeError:
            return list(items)
    if form == 'gen':
        return (x for x in items)
    if form == 'iter':
        return iter(list(items))
    if form == 'map':
        return map(lambda x: x, items)
    return list(items)


class World:
    def __init__(self, cfg, ndacs):
        HardwareSetup, PlaybackChannel, MarkerChannel, MeasurementMask, DummyAWG, DummyDAC = _imports()
        FaultyAWG, FaultyDAC = faulty_classes()
        self.cfg = [tuple(c) for c in cfg]
        self.ndacs = ndacs
        self.awgs = [FaultyAWG(num_channels=c, num_markers=m) for c, m in self.cfg]
        if STYLE.endswith('/shared-label'):
            for a in self.awgs:
                a.label = 'AWG'            # distinct generator objects, one identifier string
        self.dacs = [FaultyDAC() for _ in range(ndacs)]
        self.last_loop = {}         # program name number -> (Loop object, update) of the last ok registration
        # the wiring the caller handed over in the normally returning set_channel / set_measurement / rm_channel
        # calls (what "wired to" means for the judge; the setup's own maps are compared with the model separately)
        self.wired_ch = {}          # channel number -> [(awg, kind, pos, trafo)] (equal outputs: first kept)
        self.wired_m = {}           # measurement number -> [(dac, mask, oid)]
        self.hs = HardwareSetup()
        self.trafos = {}            # trafo number -> callable
        self.trafo_of = {}          # id(callable) -> number
        self.masks = {}             # oid -> MeasurementMask object
        self.mask_key = {}
        self.mask_of = {}           # id(object) -> oid
        self.progs = {}             # pid -> dict(loop, channels, own)
        self.pid_of = {}            # id(loop) -> pid
        self.reg_meas = {}          # program name number -> windows handed over at the last ok registration
        self.callbacks = {}         # program name number -> call count
        self.unk = Unknown()
        self.keep = []              # keep every object alive so that id() stays unique

    # -- object pools ------------------------------------------------------------------------
    def trafo(self, t):
        if t not in self.trafos:
            f = (lambda k: (lambda x: x * (k + 1)))(t)
            self.trafos[t] = f
            self.trafo_of[id(f)] = t
        return self.trafos[t]

    def mask(self, d, m, oid):
        if oid in self.masks and self.mask_key[oid] != (d, m):
            raise core.MachineryError('mask object %d requested with two different (dac, mask)' % oid)
        self.mask_key = getattr(self, 'mask_key', {})
        self.mask_key[oid] = (d, m)
        if oid not in self.masks:
            _, _, _, MeasurementMask, _, _ = _imports()
            obj = MeasurementMask(self.dacs[d], mask_name(m))
            self.masks[oid] = obj
            self.mask_of[id(obj)] = oid
        return self.masks[oid]

    def channel(self, spec):
        _, PlaybackChannel, MarkerChannel, _, _, _ = _imports()
        if spec == 'junk':
            return 5
        _, a, kind, pos, t = spec
        if kind == PB:
            return PlaybackChannel(self.awgs[a], pos, self.trafo(t))
        return MarkerChannel(self.awgs[a], pos)

    # -- one operation -----------------------------------------------------------------------
    def apply(self, op):
        """execute one operation; returns (op as transported to Lean, 'ok' | ('error', class))"""
        from qupulse.hardware.awgs.base import ProgramOverwriteException
        kind = op[0]
        line = op
        try:
            with warnings.catch_warnings():
                warnings.simplefilter('ignore')
                if kind == 'set-channel':
                    _, cid, allow, specs = op[:4]
                    chans = [self.channel(s) for s in specs]
                    self.keep.extend(chans)
                    line = op[:4]
                    self.hs.set_channel(ch_name(cid), as_collection(chans, op[4] if len(op) > 4 else 'list'),
                                        allow_multiple_registration=allow)
                elif kind == 'set-channel-single':
                    _, cid, allow, spec = op
                    ch = self.channel(spec)
                    self.keep.append(ch)
                    self.hs.set_channel(ch_name(cid), ch, allow_multiple_registration=allow)
                elif kind == 'set-measurement':
                    _, m, allow, masks = op[:4]
                    line = op[:4]
                    self.hs.set_measurement(meas_name(m),
                                            as_collection([self.mask(*x) for x in masks], op[4] if len(op) > 4 else 'list'),
                                            allow_multiple_registration=allow)
                elif kind == 'set-measurement-single':
                    _, m, allow, mk = op
                    self.hs.set_measurement(meas_name(m), self.mask(*mk), allow_multiple_registration=allow)
                elif kind == 'rm-channel':
                    self.hs.rm_channel(ch_name(op[1]))
                elif kind in ('set-fault-awg', 'set-fault-dac'):
                    (self.awgs if kind == 'set-fault-awg' else self.dacs)[op[1]].fault = op[2]
                elif kind in ('register', 'register-same'):
                    if kind == 'register-same':
                        # the very Loop object of the last registration under this name again (its measurements were
                        # dropped by that registration: its own windows are what it carries now)
                        _, n, cb_ok, update = op
                        override = None
                        if n not in self.last_loop:
                            return ('remove', 99), 'ok'          # nothing to re-register: a no-op both sides know
                        loop = self.last_loop[n]
                        pid = self.pid_of[id(loop)]
                    else:
                        _, n, pspec, cb_ok, update, override = op
                        channels, meas, shape = pspec
                        loop = build_program(tuple(channels), tuple((m, tuple(w)) for m, w in meas), shape)
                        pid = len(self.progs)
                    own = own_windows(loop)
                    chans = sorted(self.unk.idx('ch', c) for c in
                                   next(loop.get_depth_first_iterator()).waveform.defined_channels)
                    self.progs[pid] = {'loop': loop, 'channels': chans, 'own': own}
                    self.pid_of[id(loop)] = pid
                    prog_sx = ['prog', pid, chans, [[m, [list(w) for w in ws]] for m, ws in sorted(own.items())]]
                    ov_sx = 'none' if override is None else [[m, [list(w) for w in ws]] for m, ws in override]
                    line = ('register', n, prog_sx, cb_ok, update, ov_sx)
                    kwargs = {}
                    if override is not None:
                        import numpy as np
                        kwargs['measurements'] = {meas_name(m): (np.array([float(b) for b, _ in ws], dtype=float),
                                                                 np.array([float(l) for _, l in ws], dtype=float))
                                                  for m, ws in override}
                    counter = self.callbacks.setdefault(n, [0])

                    def cb(counter=counter):
                        counter[0] += 1
                    self.hs.register_program(prog_name(n), loop, run_callback=cb if cb_ok else 4, update=update,
                                             **kwargs)
                    self.reg_meas[n] = (dict((m, tuple(sorted(ws))) for m, ws in override)
                                        if override is not None else own)
                    self.last_loop[n] = loop
                elif kind == 'remove':
                    self.hs.remove_program(prog_name(op[1]))
                elif kind == 'clear':
                    self.hs.clear_programs()
                elif kind == 'arm':
                    self.hs.arm_program(prog_name(op[1]))
                elif kind == 'run':
                    before = self.callbacks.get(op[1], [0])[0]
                    self.hs.run_program(prog_name(op[1]))
                    if self.callbacks.get(op[1], [0])[0] != before + 1:
                        return line, ('error', 'callback-not-called-once')
                else:
                    raise core.MachineryError('unknown op %r' % (op,))
            self._note_wiring(op)
            return line, 'ok'
        except ProgramOverwriteException:
            return line, ('error', 'program_overwrite')
        except core.MachineryError:
            raise
        except TypeError:
            return line, ('error', 'type_error')
        except KeyError:
            return line, ('error', 'key_error')
        except ValueError:
            return line, ('error', 'value_error')
        except RuntimeError:
            return line, ('error', 'runtime_error')
        except Exception as e:  # noqa
            return line, ('error', 'other:' + type(e).__name__)

    def _note_wiring(self, op):
        kind = op[0]
        if kind in ('set-channel', 'set-channel-single'):
            new = [tuple(sp[1:5]) for sp in (op[3] if kind == 'set-channel' else [op[3]]) if sp != 'junk']
            items = (self.wired_ch.get(op[1], []) if kind == 'set-channel-single' else []) + new
            out = []
            for o in items:
                if all(o[:3] != x[:3] for x in out):
                    out.append(o)
            self.wired_ch[op[1]] = out
        elif kind in ('set-measurement', 'set-measurement-single'):
            new = [tuple(x) for x in (op[3] if kind == 'set-measurement' else [op[3]])]
            items = (self.wired_m.get(op[1], []) if kind == 'set-measurement-single' else []) + new
            out = []
            for x in items:
                if all(x[2] != y[2] for y in out):
                    out.append(x)
            self.wired_m[op[1]] = out
        elif kind == 'rm-channel':
            self.wired_ch.pop(op[1], None)

    def rewires(self, op):
        """does `op` change the wiring of a name that a registered program uses (twin of QP.C18.rewires)?
        Returns the program name numbers whose registration becomes stale, or 'fault' for fault injection."""
        stale = set()
        if op[0] in ('set-channel', 'set-channel-single', 'rm-channel'):
            for n, rp in self.hs._registered_programs.items():
                pid = self.pid_of.get(id(rp.program))
                if pid is not None and op[1] in self.progs[pid]['channels']:
                    stale.add(self.unk.idx('p', n))
        elif op[0] in ('set-measurement', 'set-measurement-single'):
            for n, rp in self.hs._registered_programs.items():
                if meas_name(op[1]) in rp.measurement_windows:
                    stale.add(self.unk.idx('p', n))
        elif op[0] in ('set-fault-awg', 'set-fault-dac'):
            return 'fault'
        return stale

    # -- observation -------------------------------------------------------------------------
    def _awg_idx(self, awg):
        for i, a in enumerate(self.awgs):
            if a is awg:
                return i
        return 900

    def _dac_idx(self, dac):
        for i, d in enumerate(self.dacs):
            if d is dac:
                return i
        return 900

    def _name(self, s):
        return None if s is None else self.unk.idx('p', s)

    def _opt_ch(self, c):
        return None if c is None else self.unk.idx('ch', c)

    def state(self, for_judge=False):
        st, jst = self.state_pair()
        return jst if for_judge else st

    def state_pair(self):
        """the implementation's state as plain data, twice: as observed, and for the judge, where the wiring is the
        one the caller handed over and the registered program's measurement windows are the ones the harness handed
        over (the program's own), not the setup's records of them."""
        _, PlaybackChannel, MarkerChannel, _, _, _ = _imports()
        hs = self.hs
        chmap = {}
        for cid, chans in hs._channel_map.items():
            outs = set()
            for c in chans:
                kind = PB if isinstance(c, PlaybackChannel) else MK
                t = self.trafo_of.get(id(c.voltage_transformation), 900) if kind == PB else 0
                outs.add((self._awg_idx(c.awg), kind, c.channel_on_awg, t))
            chmap[self.unk.idx('ch', cid)] = tuple(sorted(outs))
        measmap = {}
        for m, masks in hs._measurement_map.items():
            measmap[self.unk.idx('m', m)] = tuple(sorted(
                (self._dac_idx(k.dac), self.unk.idx('K', k.mask_name), self.mask_of.get(id(k), 900)) for k in masks))
        reg, jreg = {}, {}
        for n, rp in hs._registered_programs.items():
            ni = self.unk.idx('p', n)
            pid = self.pid_of.get(id(rp.program), 900)
            chans = tuple(self.progs[pid]['channels']) if pid in self.progs else ()
            meas = {self.unk.idx('m', m): windows_of_arrays(bl) for m, bl in rp.measurement_windows.items()}
            ra = tuple(sorted({self._awg_idx(a) for a in rp.awgs_to_upload_to}))
            rd = tuple(sorted({self._dac_idx(d) for d in rp.dacs_to_arm}))
            reg[ni] = (pid, chans, tuple(sorted(meas.items())), ra, rd)
            jreg[ni] = (pid, chans, tuple(sorted(self.reg_meas.get(ni, {}).items())), ra, rd)
        awgs = []
        for a in self.awgs:
            progs = {}
            for n, (program, channels, markers, trafos) in a._programs.items():
                progs[self.unk.idx('p', n)] = (
                    self.pid_of.get(id(program), 900),
                    tuple(self._opt_ch(c) for c in channels),
                    tuple(self._opt_ch(c) for c in markers),
                    tuple(None if t is None else self.trafo_of.get(id(t), 900) for t in trafos))
            awgs.append((a.num_channels, a.num_markers, self._name(a._armed), tuple(sorted(progs.items())),
                         int(getattr(a, 'fault', 0))))
        dacs = []
        for d in self.dacs:
            progs = {}
            for n, windows in d._measurement_windows.items():
                progs[self.unk.idx('p', n)] = tuple(sorted(
                    (self.unk.idx('K', k), windows_of_arrays(bl)) for k, bl in windows.items()))
            dacs.append((self._name(d._armed_program), tuple(sorted(progs.items())), int(getattr(d, 'fault', 0))))
        c, m, a, d = tuple(sorted(chmap.items())), tuple(sorted(measmap.items())), tuple(awgs), tuple(dacs)
        jc = tuple(sorted((k, tuple(sorted(set(v)))) for k, v in self.wired_ch.items()))
        jm = tuple(sorted((k, tuple(sorted(set(v)))) for k, v in self.wired_m.items()))
        return (c, m, tuple(sorted(reg.items())), a, d), (jc, jm, tuple(sorted(jreg.items())), a, d)


# ---------------------------------------------------------------------------------------------
# transport
# ---------------------------------------------------------------------------------------------

def _opt(x):
    return 'none' if x is None else x


def _wins(ws):
    return [[b, l] for b, l in ws]


def state_sx(st):
    chmap, measmap, reg, awgs, dacs = st
    return ['state',
            [[c, [['o', a, k, p, t] for a, k, p, t in outs]] for c, outs in chmap],
            [[m, [[d, k, o] for d, k, o in masks]] for m, masks in measmap],
            [[n, [pid, list(chans), [[m, _wins(ws)] for m, ws in meas], list(ra), list(rd)]]
             for n, (pid, chans, meas, ra, rd) in reg],
            [[nch, nmk, _opt(armed), [[n, [pid, [_opt(c) for c in chs], [_opt(c) for c in mks],
                                           [_opt(t) for t in tfs]]] for n, (pid, chs, mks, tfs) in progs], fault]
             for nch, nmk, armed, progs, fault in awgs],
            [[_opt(armed), [[n, [[k, _wins(ws)] for k, ws in masks]] for n, masks in progs], fault]
             for armed, progs, fault in dacs]]


def _n(x):
    return None if x == 'none' else int(x)


def _pwins(ws):
    return tuple(sorted((core.as_frac(b), core.as_frac(l)) for b, l in ws))


def state_of_sx(s):
    """parse a `(state …)` answer of the model into the canonical form of `World.state`"""
    _, chmap, measmap, reg, awgs, dacs = s
    c = tuple(sorted((int(k), tuple(sorted({(int(a), kd, int(p), int(t)) for _, a, kd, p, t in outs})))
                     for k, outs in chmap))
    m = tuple(sorted((int(k), tuple(sorted({(int(d), int(mk), int(o)) for d, mk, o in masks})))
                     for k, masks in measmap))
    r = tuple(sorted((int(n), (int(v[0]), tuple(sorted(int(x) for x in v[1])),
                               tuple(sorted((int(mm), _pwins(ws)) for mm, ws in v[2])),
                               tuple(sorted({int(x) for x in v[3]})), tuple(sorted({int(x) for x in v[4]}))))
                     for n, v in reg))
    a = tuple((int(nch), int(nmk), _n(armed),
               tuple(sorted((int(n), (int(u[0]), tuple(_n(x) for x in u[1]), tuple(_n(x) for x in u[2]),
                                      tuple(_n(x) for x in u[3]))) for n, u in progs)), int(fault))
              for nch, nmk, armed, progs, fault in awgs)
    d = tuple((_n(armed), tuple(sorted((int(n), tuple(sorted(dict((int(k), _pwins(ws)) for k, ws in
                                                              reversed(masks)).items())))
                                       for n, masks in progs)), int(fault))
              for armed, progs, fault in dacs)
    return (c, m, r, a, d)


def op_sx(line):
    kind = line[0]
    if kind == 'set-channel':
        return ['set-channel', line[1], line[2], [list(s) if s != 'junk' else 'junk' for s in line[3]]]
    if kind == 'set-channel-single':
        return ['set-channel-single', line[1], line[2], list(line[3])]
    if kind == 'set-measurement':
        return ['set-measurement', line[1], line[2], [list(x) for x in line[3]]]
    if kind == 'set-measurement-single':
        return ['set-measurement-single', line[1], line[2], list(line[3])]
    return list(line)


def cfg_sx(cfg, ndacs):
    return ['cfg', [list(c) for c in cfg], ndacs]


# ---------------------------------------------------------------------------------------------
# conflicts: two names of one program on the same output / mask (only one of them can be there; which one
# depends on set iteration order, so those entries are compared as "one of the candidates" by the judge only)
# ---------------------------------------------------------------------------------------------

def has_conflict(st, chans, meas_names):
    chmap, measmap = dict(st[0]), dict(st[1])
    seen = {}
    for c in chans:
        for a, k, p, _t in chmap.get(c, ()):
            if seen.setdefault((a, k, p), c) != c:
                return True
    seen = {}
    for m in meas_names:
        for d, k, _o in measmap.get(m, ()):
            if seen.setdefault((d, k), m) != m:
                return True
    return False


def mask_names(st, names):
    """blank the tuples / windows held under the given program names (both sides get the same treatment)"""
    if not names:
        return st
    chmap, measmap, reg, awgs, dacs = st
    awgs2 = tuple((nch, nmk, armed, tuple((n, (u[0], '*', '*', '*') if n in names else u) for n, u in progs), f)
                  for nch, nmk, armed, progs, f in awgs)
    dacs2 = tuple((armed, tuple((n, tuple((k, '*') for k, _ in w) if n in names else w) for n, w in progs), f)
                  for armed, progs, f in dacs)
    return (chmap, measmap, reg, awgs2, dacs2)


# ---------------------------------------------------------------------------------------------
# executing a history on the implementation
# ---------------------------------------------------------------------------------------------

def execute(cfg, ndacs, ops, gen=None, skip=0, style='str'):
    """run `ops` (or, with `gen`, ops produced on the fly from the live world) on a fresh real setup.
    Returns dict(cfg, ndacs, ops, steps=[dict(line, res, state, jstate, conflict)])."""
    global STYLE
    STYLE = style
    w = World(cfg, ndacs)
    steps = []
    done_ops = []
    it = iter(ops) if gen is None else gen(w)
    prev, init_j = w.state_pair()
    rewired = False
    stale, faulted = set(), False       # registrations made under a wiring that has changed since / refusing devices
    for op in it:
        done_ops.append(op)
        rw = w.rewires(op)
        line, res = w.apply(op)
        rewired = rewired or (bool(rw) and res == 'ok')
        if res == 'ok':
            if rw == 'fault':
                faulted = True
            elif rw:
                stale |= rw
            elif line[0] in ('register', 'remove'):
                stale.discard(line[1])
            elif line[0] == 'clear':
                stale.clear()
        if len(steps) < skip:
            # shared set-up prefix, observed and checked by the history that consists of the prefix alone
            steps.append({'line': line, 'res': res, 'state': None, 'prev': None, 'jstate': None, 'rewired': rewired})
            if len(steps) == skip:
                prev, init_j = w.state_pair()
            continue
        st, jst = w.state_pair()
        step = {'line': line, 'res': res, 'state': st, 'prev': prev, 'rewired': rewired,
                'stale': bool(stale) or faulted}
        if res == 'ok':
            step['jstate'] = jst
            if line[0] == 'register':
                pid = line[2][1]
                own = w.reg_meas.get(op[1], {})
                step['conflict'] = has_conflict(st, w.progs[pid]['channels'], list(own))
        steps.append(step)
        prev = st
        if res != 'ok' and (res[1] in ('program_overwrite', 'runtime_error') or res[1].startswith('other:')):
            break      # the call may have left a half-done upload behind: the history ends here
    return {'cfg': [list(c) for c in cfg], 'ndacs': ndacs, 'ops': done_ops, 'steps': steps, 'skip': skip, 'style': style,
            'init_jstate': init_j}


def lean_lines(h, fix=True):
    """request lines for one executed history: the model run + judge requests for the implementation's states"""
    skip = h.get('skip', 0)
    run = sx(['c18', 'run-from', skip, fix, cfg_sx(h['cfg'], h['ndacs']), [op_sx(s['line']) for s in h['steps']]])
    judges = []
    names_seen = set()
    last_j = h['init_jstate']          # the judged state before the current call
    for i, s in enumerate(h['steps']):
        op = s['line']
        if op[0] == 'register' and s['res'] == 'ok':
            names_seen.add(op[1])
        if s['res'] != 'ok' or i < skip:
            continue
        js = state_sx(s['jstate'])
        # the routing invariant speaks about the current wiring and obeying devices; its verdict counts wherever the
        # model's own state satisfies it (always before a re-wiring / fault, and again once every affected program
        # has been re-registered); the wiring-independent record invariant counts everywhere
        judges.append((i, 'inv', sx(['c18', 'judge', js])))
        if s.get('rewired'):
            judges.append((i, 'rec', sx(['c18', 'judge-rec', js])))
        if op[0] in ('arm', 'run'):
            judges.append((i, 'arm', sx(['c18', 'judge-arm', state_sx(last_j), op[1], js])))
        elif op[0] == 'remove':
            judges.append((i, 'gone', sx(['c18', 'judge-gone', js, op[1]])))
        elif op[0] == 'clear':
            for n in sorted(names_seen):
                judges.append((i, 'gone', sx(['c18', 'judge-gone', js, n])))
        last_j = s['jstate']
    return run, judges


# ---------------------------------------------------------------------------------------------
# evaluating a batch of executed histories against model and judge
# ---------------------------------------------------------------------------------------------

def describe(op):
    return sx(op_sx(op)) if not isinstance(op, str) else op


def evaluate(ctx, histories, label, fix=True, register_cases=True, compare=True):
    """returns list of (history index, step index, what) for judge violations"""
    lines, index = [], []
    for hi, h in enumerate(histories):
        run, judges = lean_lines(h, fix)
        index.append((len(lines), [(len(lines) + 1 + k, i, kind) for k, (i, kind, _l) in enumerate(judges)]))
        lines.append(run)
        lines.extend(l for _i, _k, l in judges)
    answers = core.Lean.run(lines)
    violations = []
    for hi, h in enumerate(histories):
        run_at, judge_at = index[hi]
        trace = answers[run_at]
        skip = h.get('skip', 0)
        if trace[0] != 'trace' or len(trace) - 1 != len(h['steps']) - skip:
            raise core.MachineryError('model did not accept history: %r' % (trace[:3],))
        prev_inv = True        # does the model's state before the current call satisfy the routing invariant
        masked = set()
        in_sync = True
        verdicts = {}
        for at, i, kind in judge_at:
            verdicts.setdefault(i, []).append((kind, answers[at][1] if answers[at][0] == 'judge' else 'bad-request'))
        roll = hashlib.blake2b(sx(cfg_sx(h['cfg'], h['ndacs'])).encode(), digest_size=8)
        for i, (s, t) in enumerate(zip(h['steps'], [None] * skip + trace[1:])):
            op = s['line']
            if t is None:
                # shared set-up prefix: checked once (history without the prefix marker), not again
                roll.update(sx(op_sx(op)).encode())
                continue
            if register_cases:
                # canonical input of a step = the whole history prefix (rolling hash) + the operation
                opline = sx(op_sx(op))
                roll.update(opline.encode())
                ctx.case('%s after prefix %s of %s' % (opline, roll.hexdigest(), sx(cfg_sx(h['cfg'], h['ndacs']))),
                         nontrivial=(s['res'] == 'ok' and op[0] in ('register', 'remove', 'clear', 'arm', 'run')))
                ctx.count('%s:%s:%s' % (label, op[0], s['res'] if s['res'] == 'ok' else s['res'][1]))
            m_ok = t[0] == 'ok'
            rewire = (t[1] if m_ok else t[2]) == 'true'
            # inside the routing statement: the model's own state satisfies the invariant AND every registration was
            # made under the wiring in force (two names on one output make the model's state order dependent)
            model_inv = ((t[3] == 'true') if m_ok else prev_inv) and not s.get('stale')
            # -- judge the implementation's state -------------------------------------------------
            if s['res'] == 'ok':
                for kind, verdict in verdicts.get(i, []):
                    if kind == 'inv' and not model_inv:
                        continue        # outside the routing statement (stale wiring of a name in use / refusing device)
                    if kind == 'arm' and not (prev_inv and model_inv):
                        continue
                    # 'gone' (after remove / clear) and 'rec' are judged on every obeying device of the bench, wired
                    # or not, in every history
                    if verdict != 'ok':
                        violations.append((hi, i, '%s after %s: %s' % (kind, describe(op), verdict)))
                if register_cases:
                    if rewire:
                        ctx.count(label + ':rewiring-or-fault-step')
                    if s.get('rewired'):
                        ctx.count(label + (':judged-inv-after-rewiring' if model_inv else ':judged-rec-only'))
                if not s.get('rewired') and not model_inv and register_cases:
                    ctx.count(label + ':MODEL-INV-FALSE-BEFORE-REWIRING')
            if m_ok:
                prev_inv = model_inv
            # -- correspondence ----------------------------------------------------------------------
            if not compare or not in_sync:
                continue
            if s['res'] == 'ok' and m_ok:
                # a refusing device may keep the (order dependent) entries of a conflicting registration for good
                sticky = any(a[4] for a in s['state'][3]) or any(d[2] for d in s['state'][4])
                if op[0] == 'register':
                    if s.get('conflict'):
                        masked.add(op[1])
                        if register_cases:
                            ctx.count(label + ':register-with-output-or-mask-conflict')
                    elif not sticky:
                        masked.discard(op[1])
                elif op[0] == 'remove' and not sticky:
                    masked.discard(op[1])
                elif op[0] == 'clear' and not sticky:
                    masked.clear()
                mst = state_of_sx(t[2])
                if mask_names(s['state'], masked) != mask_names(mst, masked):
                    ctx.drift('HardwareSetup state vs QP.C18.step', {'cfg': h['cfg'], 'ndacs': h['ndacs'], 'style': h.get('style'),
                                                                     'ops': [list(map(str, o)) for o in h['ops'][:i + 1]]},
                              _diff(s['state'], mst), 'state after step %d (%s)' % (i, describe(op)))
                    in_sync = False
            elif s['res'] != 'ok' and not m_ok:
                if s['res'][1] != t[1]:
                    ctx.drift('HardwareSetup error class vs QP.C18.step', describe(op), s['res'][1], t[1])
                if s['res'][1] not in ('program_overwrite', 'runtime_error') and s['state'] != s['prev']:
                    # the property is silent about raising calls: a correspondence difference, not a violation;
                    # the states after later normally-returning calls are still judged
                    ctx.drift('raising call changed the HardwareSetup state (the model leaves it alone)',
                              describe(op), _diff(s['state'], s['prev']), 'unchanged')
                    in_sync = False
            else:
                ctx.drift('HardwareSetup outcome vs QP.C18.step', describe(op),
                          str(s['res']), 'ok' if m_ok else t[1])
                in_sync = False
    return violations


def _diff(a, b):
    parts = ['chmap', 'measmap', 'registered', 'awgs', 'dacs']
    out = []
    for name, x, y in zip(parts, a, b):
        if x != y:
            out.append('%s: impl=%s model=%s' % (name, _short(x), _short(y)))
    return '; '.join(out)[:1500]


def _short(x):
    return str(x).replace('Fraction', 'F')[:600]


# ---------------------------------------------------------------------------------------------
# generators
# ---------------------------------------------------------------------------------------------

WINDOW_POOL = [(F(0), F(1)), (F(1, 2), F(2)), (F(1), F(1, 2)), (F(2), F(1)), (F(0), F(1, 2)), (F(3), F(1))]


def random_cfg(rng):
    nawg = rng.choice([2, 2, 3])
    return [(rng.randrange(2, 5), rng.randrange(0, 3)) for _ in range(nawg)], 2


def random_out(rng, cfg, in_range=True):
    a = rng.randrange(len(cfg))
    nch, nmk = cfg[a]
    kind = MK if (nmk > 0 and rng.random() < 0.3) else PB
    size = nch if kind == PB else nmk
    pos = rng.randrange(size) if in_range else size + rng.randrange(2)
    return ('o', a, kind, pos, rng.randrange(4) if kind == PB else 0)


def _fresh_program(rng, known_ch, known_m, malformed=0.0):
    k = min(len(known_ch), rng.choice([1, 1, 2, 2, 3]))
    chans = sorted(rng.sample(sorted(known_ch), k)) if k else []
    if not chans or rng.random() < malformed:
        chans = sorted(set(chans + [rng.randrange(40, 43)]))            # unknown channel -> KeyError
    nm = rng.choice([0, 1, 1, 2, 2, 3])
    pool = sorted(known_m)
    ms = sorted(rng.sample(pool, min(nm, len(pool)))) if pool else []
    if rng.random() < malformed:
        ms = sorted(set(ms + [rng.randrange(40, 43)]))                  # unknown measurement -> KeyError
    meas = [(m, tuple(sorted(rng.sample(WINDOW_POOL, rng.choice([1, 1, 2]))))) for m in ms]
    return (tuple(chans), tuple(meas), rng.choice([0, 0, 0, 2, 2, 3, 3, 1]))


def _spec_pool():
    """a fixed pool of program specifications (channel ids 0..7, measurement names 0..5): most registrations draw
    from it, so that `create_program` runs once per specification and process (it dominates the run time
    otherwise); the wirings the programs meet are random per history"""
    import random
    rng = random.Random(180018)
    pool = []
    for _ in range(700):
        pool.append(_fresh_program(rng, set(range(8)), set(range(6))))
    return pool


SPEC_POOL = _spec_pool()


def random_program(rng, known_ch, known_m, malformed=0.0):
    if rng.random() < 0.85 and rng.random() >= 2 * malformed:
        for _ in range(12):
            spec = SPEC_POOL[rng.randrange(len(SPEC_POOL))]
            if set(spec[0]) <= known_ch and {m for m, _ in spec[1]} <= known_m:
                return spec
    return _fresh_program(rng, known_ch, known_m, malformed)


def history_generator(rng, cfg, ndacs, length, rewire_ok):
    """ops produced from the live world (so that names in use are known)"""
    def used_names(w):
        used_ch, used_m = set(), set()
        for n, rp in w.hs._registered_programs.items():
            pid = w.pid_of.get(id(rp.program))
            if pid is not None:
                used_ch.update(w.progs[pid]['channels'])
            used_m.update(w.unk.idx('m', m) for m in rp.measurement_windows)
        return used_ch, used_m

    def gen(w):
        sparse = rewire_ok == 2
        if sparse:
            # un-wiring histories: every device under one name only, so that re-wiring that name takes the device
            # out of the setup while it still holds programs
            for cid in range(len(cfg)):
                yield ('set-channel', cid, False, [('o', cid, PB, rng.randrange(cfg[cid][0]), cid)])
            for m in range(ndacs):
                yield ('set-measurement', m, False, [(m, m, m * 4 + m)])
        # initial wiring: several outputs per name, several names per device
        nch_ids = 0 if sparse else rng.randrange(3, 7)
        taken = set()
        for cid in range(nch_ids):
            outs = []
            for _ in range(rng.choice([1, 1, 2, 3])):
                for _try in range(6):
                    o = random_out(rng, cfg)
                    if o[1:4] not in taken:
                        taken.add(o[1:4])
                        outs.append(o)
                        break
            yield ('set-channel', cid, False, outs, rng.choice(FORMS))
        taken_m = set()
        for m in range(0 if sparse else rng.randrange(2, 5)):
            masks = []
            for _ in range(rng.choice([1, 1, 2])):
                d, k = rng.randrange(ndacs), rng.randrange(4)
                if (d, k) not in taken_m:
                    taken_m.add((d, k))
                    masks.append((d, k, d * 4 + k))      # one mask object per (dac, mask): oid = d*4+k
            yield ('set-measurement', m, False, masks, rng.choice(FORMS))
        faulty = rewire_ok == 3
        if faulty:
            # refusing devices: one or two devices raise RuntimeError on remove / arm / delete_program from here on
            for _ in range(rng.choice([1, 1, 2])):
                if rng.random() < 0.55:
                    yield ('set-fault-awg', rng.randrange(len(cfg)), rng.choice([1, 1, 1, 2]))
                else:
                    yield ('set-fault-dac', rng.randrange(ndacs), 1)
        for _ in range(length):
            known_ch = {w.unk.idx('ch', c) for c in w.hs._channel_map}
            known_m = {w.unk.idx('m', m) for m in w.hs._measurement_map}
            registered = sorted(w.unk.idx('p', n) for n in w.hs._registered_programs)
            used_ch, used_m = used_names(w)
            r = rng.random()
            if sparse and r < 0.45:
                r = 0.70 + r / 1.5           # un-wiring histories: twice as many wiring operations
            if faulty and 0.40 <= r < 0.45:
                r = 0.45                 # more removals
            if r < 0.40 and registered and rng.random() < (0.3 if rewire_ok in (1, 2) else 0.08):
                # the very same Loop object again (e.g. to sync after a re-wiring)
                yield ('register-same', rng.choice(registered), True, rng.random() < 0.9)
            elif r < 0.40:
                if registered and rng.random() < 0.55:
                    n = rng.choice(registered)              # re-registration, often with other channels
                else:
                    n = rng.randrange(4)
                # without `update` a re-registration raises unless the new program avoids the old generators
                update = rng.random() < (0.93 if n in registered else 0.3)
                pspec = random_program(rng, known_ch, known_m, malformed=0.06)
                # the `measurements=` argument in its three forms: omitted (the program's own windows), an explicit
                # non-empty mapping (replaces the program's), an explicit EMPTY mapping (no windows at all)
                override = None
                if rng.random() < 0.16:
                    if rng.random() < 0.4 or not known_m:
                        override = []
                    else:
                        ms = rng.sample(sorted(known_m), min(len(known_m), rng.choice([1, 2])))
                        override = [(m, tuple(sorted(rng.sample(WINDOW_POOL, rng.choice([1, 2]))))) for m in sorted(ms)]
                yield ('register', n, pspec, rng.random() > 0.03, update, override)
            elif r < 0.52:
                yield ('remove', rng.choice(registered) if registered and rng.random() < 0.85 else rng.randrange(5))
            elif r < 0.56:
                yield ('clear',)
            elif r < 0.70:
                n = rng.choice(registered) if registered and rng.random() < 0.85 else rng.randrange(5)
                yield (rng.choice(['arm', 'arm', 'run']), n)
            elif r < 0.86:
                # channel wiring: mostly names no registered program uses
                free = sorted(set(range(8)) - used_ch)
                if rewire_ok and used_ch and rng.random() < (0.8 if sparse else 0.5):
                    cid = rng.choice(sorted(used_ch))
                elif free:
                    cid = rng.choice(free)
                else:
                    continue
                form = rng.random()
                allow = rng.random() < 0.35
                if form < 0.15 and cid in known_ch:
                    yield ('rm-channel', cid)
                elif form < 0.2:
                    yield ('rm-channel', rng.choice(free) if free else 39)
                elif form < 0.4:
                    yield ('set-channel-single', cid, allow, random_out(rng, cfg, in_range=rng.random() > 0.1))
                else:
                    specs = [random_out(rng, cfg, in_range=rng.random() > 0.05)
                             for _ in range(rng.choice([0, 1, 1, 2, 2, 3]))]
                    if rng.random() < 0.05:
                        specs.insert(rng.randrange(len(specs) + 1), 'junk')
                    keys = [sp[1:4] for sp in specs if sp != 'junk']
                    form = rng.choice(FORMS)
                    if form == 'set' and len(set(keys)) < len(keys):
                        form = 'list'         # equal outputs with different transformations: a set keeps an arbitrary one
                    yield ('set-channel', cid, allow, specs, form)
            else:
                free = sorted(set(range(6)) - used_m)
                if rewire_ok and used_m and rng.random() < (0.8 if sparse else 0.5):
                    m = rng.choice(sorted(used_m))
                elif free:
                    m = rng.choice(free)
                else:
                    continue
                allow = rng.random() < 0.4
                pool = [(d, k, d * 4 + k) for d in range(ndacs) for k in range(4)]
                # a second object for some (dac, mask): same mask, other identity
                pool += [(d, k, 100 + o) for d, k, o in pool[:4]]
                if rng.random() < 0.3:
                    yield ('set-measurement-single', m, allow, rng.choice(pool))
                else:
                    yield ('set-measurement', m, allow, rng.sample(pool, rng.choice([0, 1, 1, 2, 3])), rng.choice(FORMS))
    return gen


# fixed wiring + alphabet for the exhaustive small-scope space
EXH_CFG = ([(2, 1), (2, 1)], 2)
EXH_SETUP = [
    ('set-channel', 0, False, [('o', 0, PB, 0, 1), ('o', 0, PB, 1, 2)], 'gen'),   # two outputs of one generator
    ('set-channel', 1, False, [('o', 1, PB, 1, 3)], 'tuple'),
    ('set-channel', 2, False, [('o', 0, MK, 0, 0), ('o', 1, MK, 0, 0)], 'set'),   # a name on two generators
    ('set-measurement', 0, False, [(0, 0, 0)], 'gen'),
    ('set-measurement', 1, False, [(1, 1, 1), (0, 2, 2)], 'iter'),                # a name on two devices
]
_W = ((F(0), F(1)),)
_V = ((F(1), F(1, 2)), (F(2), F(1)))
EXH_PROGS = {
    'X': ((0,), ((0, _W),), 0),
    'Y': ((1,), ((1, _V),), 2),
    'Z': ((0, 1), ((0, _W), (1, _V)), 3),
    'M': ((2,), (), 0),
}
EXH_ALPHABET = (
    [('register', 0, EXH_PROGS[k], True, u, None) for k in 'XYZM' for u in (True, False)] +
    [('register', 1, EXH_PROGS[k], True, True, None) for k in 'XY'] +
    [('register', 0, EXH_PROGS['X'], True, True, []),                       # measurements={}: no windows at all
     ('register', 0, EXH_PROGS['Z'], True, True, [(0, _V)])] +             # explicit mapping replaces the program's
    [('remove', 0), ('remove', 1), ('clear',), ('arm', 0), ('arm', 1)]
)


# second exhaustive space: re-wiring between registration and removal / clearing.  Every device under one name.
UNW_CFG = ([(2, 1), (1, 0)], 2)
UNW_SETUP = [
    ('set-channel', 0, False, [('o', 0, PB, 0, 1)], 'map'),
    ('set-measurement', 0, False, [(0, 0, 0)], 'map'),
]
_P = ((0,), ((0, _W),), 0)
_Q = ((0,), (), 0)
UNW_ALPHABET = [
    ('register', 0, _P, True, True, None),
    ('register', 1, _Q, True, True, None),
    ('set-channel', 0, False, [('o', 1, PB, 0, 2)], 'iter'),       # channel 0 moves to the second generator
    ('set-channel', 0, True, [('o', 0, PB, 0, 1)]),        # ... and back
    ('set-channel', 0, True, [('o', 0, PB, 1, 3), ('o', 0, MK, 0, 0)]),   # ... to other outputs of the first one
    ('register-same', 0, True, True),                      # the same Loop object again, update=True
    ('rm-channel', 0),
    ('set-measurement', 0, False, [(1, 1, 5)], 'gen'),            # measurement 0 moves to the second device
    ('remove', 0), ('remove', 1), ('clear',), ('arm', 0),
]


def unwiring_histories(length):
    for seq in itertools.product(UNW_ALPHABET, repeat=length):
        yield UNW_SETUP + list(seq)


# third exhaustive space: refusing devices.  Wiring of the first space (a marker name on both generators, a
# measurement on both acquisition devices), one device made to refuse, then registration / removal / clearing.
FLT_ALPHABET = [
    ('set-fault-awg', 0, 1), ('set-fault-awg', 1, 1), ('set-fault-awg', 0, 2),
    ('set-fault-dac', 0, 1), ('set-fault-dac', 1, 1),
    ('register', 0, EXH_PROGS['Z'], True, True, None),
    ('register', 0, EXH_PROGS['M'], True, True, None),
    ('register', 0, EXH_PROGS['Y'], True, True, None),
    ('rm-channel', 2),
    ('remove', 0), ('clear',),
]


def fault_histories(length):
    for seq in itertools.product(FLT_ALPHABET, repeat=length):
        yield EXH_SETUP + list(seq)


def exhaustive_histories(length):
    for seq in itertools.product(EXH_ALPHABET, repeat=length):
        yield EXH_SETUP + list(seq)


def _exec_job(job):
    cfg, ndacs, ops = job[:3]
    core.ensure_repo_on_path()
    return execute(cfg, ndacs, ops, skip=job[3] if len(job) > 3 else 0, style=job[4] if len(job) > 4 else 'str')


def _exec_random_job(job):
    seed, cfg, ndacs, length, rewire_ok = job
    import random
    core.ensure_repo_on_path()
    rng = random.Random(seed)
    style = rng.choice(['str', 'str', 'int', 'int', 'mixed']) + rng.choice(['', '/shared-label'])
    return execute(cfg, ndacs, None, gen=history_generator(rng, cfg, ndacs, length, rewire_ok), style=style)


class Collector:
    """what `evaluate` needs from a run context, picklable (results of worker processes are merged later)"""
    def __init__(self):
        self.counters = {}
        self.cases = []          # (digest, nontrivial)
        self.samples = []
        self.drifts = []
        self.ndrifts = 0

    def case(self, canonical, nontrivial=True, sample=False):
        self.cases.append((hashlib.blake2b(canonical.encode(), digest_size=8).digest(), nontrivial))
        if len(self.samples) < 3:
            self.samples.append(canonical if len(canonical) < 600 else canonical[:600] + '…')

    def count(self, key, inc=1):
        self.counters[key] = self.counters.get(key, 0) + inc

    def drift(self, correspondence, case, impl, model):
        self.ndrifts += 1
        if len(self.drifts) < 5:
            self.drifts.append((correspondence, case, impl, model))


def _chunk_job(args):
    """execute a chunk of histories on the implementation and evaluate it against model and judge"""
    kind, jobs, label, compare = args
    core.ensure_repo_on_path()
    fn = _exec_job if kind == 'ops' else _exec_random_job
    hs = [fn(j) for j in jobs]
    col = Collector()
    violations = evaluate(col, hs, label, compare=compare, register_cases=compare)
    vio = []
    seen = set()
    for hi, i, what in violations:
        if hi not in seen:
            seen.add(hi)
            if len(vio) < 5:
                vio.append(({'cfg': hs[hi]['cfg'], 'ndacs': hs[hi]['ndacs'], 'ops': hs[hi]['ops'],
                             'style': hs[hi].get('style', 'str')}, i, what))
    return {'col': col, 'violations': vio, 'nviolating': len(seen)}


def run_chunks(ctx, kind, jobs, label, chunk, compare=True, deadline=None):
    """all jobs in chunks (worker processes in the thorough tier); merges counters, cases, drifts; reports the
    first violating histories"""
    chunks = [(kind, jobs[k:k + chunk], label, compare) for k in range(0, len(jobs), chunk)]
    if ctx.quick or len(chunks) < 4:
        results = map(_chunk_job, chunks)
    else:
        pool = multiprocessing.get_context('fork').Pool(min(16, os.cpu_count() or 1))
        results = pool.imap(_chunk_job, chunks)
    nviol = 0
    done = 0
    try:
        for res in results:
            done += 1
            col = res['col']
            for k, v in col.counters.items():
                ctx.count(k, v)
            ctx.evaluations += len(col.cases)
            ctx.distinct.update(d for d, nt in col.cases if nt)
            for smp in col.samples:
                if len(ctx.samples) < 6:
                    ctx.samples.append(smp)
            for d in col.drifts:
                ctx.drift(*d)
            ctx.disagreements += max(0, col.ndrifts - len(col.drifts))
            nviol += res['nviolating']
            ctx.disagreements += res['nviolating']
            if res['nviolating']:
                ctx.count(label + ':violating-histories', res['nviolating'])
            for h, i, what in res['violations']:
                if len([v for v in ctx.violations if v['found_input']]) < 3:
                    report(ctx, h, i, what)
            if deadline is not None and ctx.elapsed() > deadline and done < len(chunks):
                # wall-clock budget of the tier (a loaded machine): stop here, the evidence says how far it got
                ctx.extra[label + '_stopped_at_budget'] = '%d of %d histories' % (done * chunk, len(jobs))
                break
    finally:
        if not (ctx.quick or len(chunks) < 4):
            pool.terminate()
    return nviol


# ---------------------------------------------------------------------------------------------
# violations: shrink, report
# ---------------------------------------------------------------------------------------------

def judge_history(ctx, cfg, ndacs, ops, style='str'):
    """execute + judge only; returns (history, violations)"""
    h = execute(cfg, ndacs, ops, style=style)
    v = evaluate(ctx, [h], 'shrink', register_cases=False, compare=False)
    return h, v


def shrink(ctx, cfg, ndacs, ops, limit=40, style='str'):
    """delta-debugging on the operation list while the judge still reports a violation"""
    ops = list(ops)
    for _round in range(limit):
        cands = [ops[:i] + ops[i + 1:] for i in range(len(ops))]
        if not cands:
            break
        hs = [execute(cfg, ndacs, c, style=style) for c in cands]
        lines_v = evaluate(ctx, hs, 'shrink', register_cases=False, compare=False)
        bad = sorted({hi for hi, _i, _w in lines_v})
        if not bad:
            break
        ops = cands[bad[0]]
    return ops


def report(ctx, h, step, what, do_shrink=True):
    ops = h['ops'][:step + 1] if step is not None else h['ops']
    # keep following ops that make the consequence visible (e.g. remove after a stale registration)
    if do_shrink:
        try:
            ops = shrink(ctx, h['cfg'], h['ndacs'], ops, style=h.get('style', 'str'))
            h2, v2 = judge_history(ctx, h['cfg'], h['ndacs'], ops, style=h.get('style', 'str'))
            if v2:
                what = v2[-1][2]
        except core.MachineryError:
            pass
    style = h.get('style', 'str')
    key = json.dumps([style, ops_to_json(ops)], sort_keys=True)
    seen = ctx.__dict__.setdefault('_reported_histories', [])
    if key in seen:
        return                      # different failing histories shrank to the same minimal one
    seen.append(key)
    ctx.violation('HardwareSetup routing: %s; identifiers: %s; history: %s'
                  % (what, style, ' ; '.join(sx(op_to_plain(o)) for o in ops)),
                  {'kind': 'history', 'cfg': h['cfg'], 'ndacs': h['ndacs'], 'style': style, 'ops': ops_to_json(ops)})


def op_to_plain(op):
    """an op as generated (register carries the program spec, not the pid) in printable form"""
    if op[0] == 'register':
        _, n, (chans, meas, shape), cb, upd, ov = op
        return ('register', n, ['spec', list(chans), [[m, [list(w) for w in ws]] for m, ws in meas], shape], cb, upd,
                'none' if ov is None else [[m, [list(w) for w in ws]] for m, ws in ov])
    if op[0] in ('set-channel', 'set-measurement') and len(op) > 4:
        return op_sx(op) + ['as-' + op[4]]
    return op_sx(op)


def ops_to_json(ops):
    def enc(x):
        if isinstance(x, F):
            return {'q': [x.numerator, x.denominator]}
        if isinstance(x, (list, tuple)):
            return [enc(y) for y in x]
        return x
    return [enc(o) for o in ops]


def ops_from_json(ops):
    def dec(x):
        if isinstance(x, dict) and 'q' in x:
            return F(x['q'][0], x['q'][1])
        if isinstance(x, list):
            return tuple(dec(y) for y in x)
        return x
    out = []
    for o in ops:
        o = dec(o)
        if o[0] in ('set-channel', 'set-measurement'):
            o = (o[0], o[1], o[2], list(o[3])) + tuple(o[4:])
        out.append(o)
    return out


# ---------------------------------------------------------------------------------------------
# run / replay
# ---------------------------------------------------------------------------------------------

RULE = ('histories of public HardwareSetup operations on real DummyAWG/DummyDAC devices with real Loop '
        'programs (ConstantPT / TablePT / RepetitionPT / SequencePT with measurements): random wirings with '
        'several outputs per name and several names per device (2-3 AWGs with 2-4 channels and 0-2 markers, '
        '2 DACs), random histories incl. re-registration with other channels/measurements, explicit '
        'measurements, malformed calls (non-callable callback, unknown names, out-of-range outputs, '
        'double registration, junk elements, 10 % with re-wiring of names in use and 10 % un-wiring histories '
        '(every device under one name, re-wired between register and remove/clear)); plus every history up to a '
        'fixed length over a 17-letter alphabet on a fixed wiring and over a 10-letter re-wiring alphabet. Non-trivial = a normally returning register/remove/clear/arm/run step; '
        'distinct by operation and history prefix')


def random_jobs(rng, n, length):
    import random
    jobs = []
    for i in range(n):
        seed = rng.getrandbits(64)
        cfg, ndacs = random_cfg(random.Random(seed))
        jobs.append((seed, cfg, ndacs, length, 1 if i % 10 == 9 else 2 if i % 10 == 4 else 3 if i % 10 == 7 else 0))
    return jobs


def run(ctx: core.Ctx):
    ctx.rule = RULE
    ctx.assumptions = [
        'interpretation: re-wiring a channel or measurement name that a registered program uses, without '
        're-registering the program, is outside the routing statement (Inv and ArmSpec are judged up to such a step); '
        'the record invariant RecInv and Gone after remove/clear are judged on every device in every history',
        'two names of one program wired to the very same output / mask: the invariant only demands that one of '
        'them is there (which one depends on set iteration order)',
        'histories end at a call that raises ProgramOverwriteException (the call may leave a partial upload behind; '
        'the property speaks about calls that returned normally)',
    ]
    for rec in ctx.corpus():
        replay(ctx, rec, from_corpus=True)
        ctx.corpus_replayed += 1

    # exhaustive small scope
    exh_len = 3 if ctx.quick else 4          # a length, not a count: never escalated (ctx.n would multiply it)
    # integer identifiers (the channel identifier 0 included) in this space; both generators report one label
    jobs = [(EXH_CFG[0], EXH_CFG[1], EXH_SETUP, 0, 'int/shared-label')]          # the shared wiring prefix, checked once
    jobs += [(EXH_CFG[0], EXH_CFG[1], ops, len(EXH_SETUP), 'int/shared-label') for ops in exhaustive_histories(exh_len)]
    ctx.exhaustive_spaces.append('all histories of length %d (prefixes included) over %d operations on a fixed wiring '
                                 '(%d histories)' % (exh_len, len(EXH_ALPHABET), len(jobs)))
    run_chunks(ctx, 'ops', jobs, 'exh', 1000)

    # exhaustive re-wiring scope (register / re-wire / remove / clear on devices that drop out of the wiring)
    unw_len = 3 if ctx.quick else 4
    jobs = [(UNW_CFG[0], UNW_CFG[1], UNW_SETUP, 0, 'mixed')]
    jobs += [(UNW_CFG[0], UNW_CFG[1], ops, len(UNW_SETUP), 'mixed') for ops in unwiring_histories(unw_len)]
    ctx.exhaustive_spaces.append('all histories of length %d over %d operations incl. re-wiring of the only name of a '
                                 'device (%d histories)' % (unw_len, len(UNW_ALPHABET), len(jobs) - 1))
    run_chunks(ctx, 'ops', jobs, 'unw', 1000)

    # exhaustive fault scope (a refusing device among several participants)
    flt_len = 3 if ctx.quick else 4
    jobs = [(EXH_CFG[0], EXH_CFG[1], EXH_SETUP, 0, 'str')]
    jobs += [(EXH_CFG[0], EXH_CFG[1], ops, len(EXH_SETUP), 'str') for ops in fault_histories(flt_len)]
    ctx.exhaustive_spaces.append('all histories of length %d over %d operations incl. fault injection on one of '
                                 'several participating devices (%d histories)' % (flt_len, len(FLT_ALPHABET), len(jobs)))
    run_chunks(ctx, 'ops', jobs, 'flt', 1000)

    # random histories
    run_chunks(ctx, 'random', random_jobs(ctx.fork('histories'), ctx.n(500, 20000), 25), 'rnd', 250,
               deadline=None if ctx.quick else 600)

    # failing-input search after a drift that the judge did not turn into a violation
    if ctx.drifts and not ctx.violations:
        search(ctx)


def search(ctx):
    """model and implementation differ but no judged state violated the property: look further (judge only)"""
    jobs = [(EXH_CFG[0], EXH_CFG[1], ops, len(EXH_SETUP), 'int/shared-label') for ops in exhaustive_histories(3)]
    jobs += [(UNW_CFG[0], UNW_CFG[1], ops, len(UNW_SETUP), 'mixed') for ops in unwiring_histories(3)]
    jobs += [(EXH_CFG[0], EXH_CFG[1], ops, len(EXH_SETUP), 'str') for ops in fault_histories(3)]
    if run_chunks(ctx, 'ops', jobs, 'search', 1000, compare=False):
        return
    run_chunks(ctx, 'random', random_jobs(ctx.fork('search'), ctx.n(300, 3000), 30), 'search', 250, compare=False)


def replay(ctx: core.Ctx, rec: dict, from_corpus: bool = False) -> bool:
    if rec.get('kind') != 'history':
        return True
    ops = ops_from_json(rec['ops'])
    h = execute([tuple(c) for c in rec['cfg']], rec['ndacs'], ops, style=rec.get('style', 'str'))
    v = evaluate(ctx, [h], 'corpus' if from_corpus else 'replay', compare=from_corpus)
    for hi, i, what in v[:1]:
        report(ctx, h, i, what, do_shrink=False)
    if not from_corpus:
        print('replay: %d operations executed, %s' % (len(h['steps']), 'VIOLATES: ' + v[0][2] if v else 'property holds'))
    return not v
